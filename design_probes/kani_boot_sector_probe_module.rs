// design-phase probe (throwaway, not framework): module appended to a scratch copy of src/boot_sector.rs
#[cfg(kani)]
mod verif_kani {
    use super::*;

    #[kani::proof]
    fn fmt_any_options() {
        let total_sectors: u32 = kani::any();
        let mut opts = FormatVolumeOptions::new();
        let bps: u16 = kani::any();
        kani::assume(bps.is_power_of_two() && bps >= 512);
        opts.bytes_per_sector = bps;
        if kani::any() {
            let bpc: u32 = kani::any();
            kani::assume(bpc.is_power_of_two() && bpc >= 512);
            opts.bytes_per_cluster = Some(bpc);
        }
        let ftsel: u8 = kani::any();
        opts.fat_type = match ftsel { 0 => None, 1 => Some(FatType::Fat12), 2 => Some(FatType::Fat16), _ => Some(FatType::Fat32) };
        opts.max_root_dir_entries = kani::any();
        let fats: u8 = kani::any();
        kani::assume(fats == 1 || fats == 2);
        opts.fats = fats;
        let r = format_boot_sector::<()>(&opts, total_sectors);
        if let Ok((boot, ft)) = r {
            if boot.validate::<()>(true).is_ok() {
                let bpb = &boot.bpb;
                let spf = bpb.sectors_per_fat() as u64;
                let meta = bpb.reserved_sectors as u64 + spf * bpb.fats as u64 + bpb.root_dir_sectors() as u64;
                assert!(meta < total_sectors as u64);
                let tc = bpb.total_clusters();
                assert!(FatType::from_clusters(tc) == ft);
                if let Some(req) = opts.fat_type { assert!(req == ft); }
                assert!(spf * (bps as u64) * 8 / (ft.bits_per_fat_entry() as u64) >= tc as u64 + 2);
            }
        }
    }

    fn cell(bps: u16, bpc: Option<u32>, ft: Option<FatType>, fats: u8) {
        let total_sectors: u32 = kani::any();
        let mut opts = FormatVolumeOptions::new();
        opts.bytes_per_sector = bps;
        opts.bytes_per_cluster = bpc;
        opts.fat_type = ft;
        opts.max_root_dir_entries = kani::any();
        opts.fats = fats;
        let r = format_boot_sector::<()>(&opts, total_sectors);
        if let Ok((boot, ft)) = r {
            if boot.validate::<()>(true).is_ok() {
                let bpb = &boot.bpb;
                let spf = bpb.sectors_per_fat() as u64;
                let meta = bpb.reserved_sectors as u64 + spf * bpb.fats as u64 + bpb.root_dir_sectors() as u64;
                assert!(meta < total_sectors as u64);
                let tc = bpb.total_clusters();
                assert!(FatType::from_clusters(tc) == ft);
                if let Some(req) = opts.fat_type { assert!(req == ft); }
                assert!(spf * (bps as u64) * 8 / (ft.bits_per_fat_entry() as u64) >= tc as u64 + 2);
            }
        }
    }
    #[kani::proof]
    fn cell_512_none_none_2() { cell(512, None, None, 2); }
    #[kani::proof]
    fn cell_512_4096_f16_2() { cell(512, Some(4096), Some(FatType::Fat16), 2); }
    #[kani::proof]
    fn cell_4096_512_none_2() { cell(4096, Some(512), None, 2); }
    #[kani::proof]
    fn cell_2048_32768_f12_1() { cell(2048, Some(32768), Some(FatType::Fat12), 1); }

    #[kani::proof]
    fn fmt_default_all_sizes() {
        let total_sectors: u32 = kani::any();
        kani::assume(total_sectors >= 42);
        let opts = FormatVolumeOptions::new();
        let r = format_boot_sector::<()>(&opts, total_sectors);
        assert!(r.is_ok());
        if let Ok((boot, ft)) = r {
            let bpb = &boot.bpb;
            let spf = bpb.sectors_per_fat() as u64;
            let meta = bpb.reserved_sectors as u64 + spf * bpb.fats as u64 + bpb.root_dir_sectors() as u64;
            assert!(meta < total_sectors as u64);
            let tc = bpb.total_clusters();
            assert!(FatType::from_clusters(tc) == ft);
            assert!(spf * 512 * 8 / (ft.bits_per_fat_entry() as u64) >= tc as u64 + 2);
        }
    }
}
