// design-phase probe (throwaway, not framework): module appended to a scratch copy of src/dir.rs
#[cfg(kani)]
mod verif_kani {
    use super::*;

    fn any_gen() -> ShortNameGenerator {
        let g = ShortNameGenerator {
            chksum: kani::any(),
            long_prefix_bitmap: kani::any(),
            prefix_chksum_bitmap: kani::any(),
            name_fits: kani::any(),
            lossy_conv: kani::any(),
            exact_match: kani::any(),
            basename_len: kani::any(),
            short_name: kani::any(),
        };
        kani::assume(g.basename_len <= 8);
        g
    }

    #[kani::proof]
    #[kani::unwind(13)]
    fn sfn_unique_step() {
        let mut g = any_gen();
        let e: [u8; SFN_SIZE] = kani::any();
        g.add_existing(&e);
        if let Ok(n) = g.generate() {
            assert!(n != e);
        }
    }

    fn any_lfn() -> DirLfnEntryData {
        let mut e = DirLfnEntryData::new(kani::any(), kani::any());
        let part: [u16; 13] = kani::any();
        e.copy_name_from_slice(&part);
        e
    }

    // one step from any state satisfying the builder invariant: no panic, invariant preserved
    #[kani::proof]
    #[kani::unwind(262)]
    fn process_step() {
        let arr: [u16; 260] = kani::any();
        let m: usize = kani::any();
        kani::assume(m <= 20);
        let index: u8 = kani::any();
        kani::assume((index as usize) <= m);
        let mut b = LongNameBuilder { buf: LfnBuffer::from_ucs2_units(arr[..m * 13].iter().copied()), chksum: kani::any(), index };
        let e = any_lfn();
        b.process(&e);
        assert!(b.index as usize <= 20);
        assert!(b.buf.len() % 13 == 0 && b.buf.len() <= 260);
        #[cfg(not(feature = "alloc"))]
        let _ = 0;
        assert!((b.index as usize) * 13 <= b.buf.len());
    }

    #[kani::proof]
    #[kani::unwind(41)]
    fn lfn_roundtrip3() {
        let units: [u16; 39] = kani::any();
        let len: usize = kani::any();
        kani::assume(len >= 1 && len <= 39);
        let name = &units[..len];
        kani::assume(name[len - 1] != 0 && name[len - 1] != 0xFFFF);
        let chk: u8 = kani::any();
        let gen = LfnEntriesGenerator::new(name, chk);
        let mut b = LongNameBuilder::new();
        for e in gen {
            b.process(&e);
        }
        let buf = b.into_buf();
        assert!(buf.len() == len);
        let out = buf.as_ucs2_units();
        let k: usize = kani::any();
        kani::assume(k < len);
        assert!(out[k] == name[k]);
    }

    #[kani::proof]
    #[kani::unwind(262)]
    fn lfn_roundtrip() {
        let units: [u16; 255] = kani::any();
        let len: usize = kani::any();
        kani::assume(len >= 1 && len <= 255);
        let name = &units[..len];
        kani::assume(name[len - 1] != 0 && name[len - 1] != 0xFFFF);
        let chk: u8 = kani::any();
        let gen = LfnEntriesGenerator::new(name, chk);
        let n = gen.len();
        assert!(n == (len + 12) / 13);
        let mut b = LongNameBuilder::new();
        let mut i = 0usize;
        for e in gen {
            assert!(e.checksum() == chk);
            let expect_order = (n - i) as u8 | if i == 0 { 0x40 } else { 0 };
            assert!(e.order() == expect_order);
            b.process(&e);
            i += 1;
        }
        assert!(i == n);
        assert!(b.chksum == chk && b.index == 1);
        let buf = b.into_buf();
        assert!(buf.len() == len);
        let out = buf.as_ucs2_units();
        let k: usize = kani::any();
        kani::assume(k < len);
        assert!(out[k] == name[k]);
    }
}

#[cfg(kani)]
mod verif_kani_tree {
    use super::*;
    use crate::fs::{FileSystem, FsOptions, LossyOemCpConverter};
    use crate::io::{IoBase, Read, Seek, SeekFrom, Write};
    use crate::time::NullTimeProvider;

    const N: usize = 42 * 512;
    static IMG: &[u8; N] = include_bytes!("/tmp/probe/tiny.img");

    struct ArrDev { data: [u8; N], pos: usize }
    impl IoBase for ArrDev { type Error = (); }
    impl Read for ArrDev {
        fn read(&mut self, buf: &mut [u8]) -> Result<usize, ()> {
            let n = buf.len().min(N - self.pos);
            buf[..n].copy_from_slice(&self.data[self.pos..self.pos + n]);
            self.pos += n;
            Ok(n)
        }
    }
    impl Write for ArrDev {
        fn write(&mut self, buf: &[u8]) -> Result<usize, ()> {
            let n = buf.len().min(N - self.pos);
            self.data[self.pos..self.pos + n].copy_from_slice(&buf[..n]);
            self.pos += n;
            Ok(n)
        }
        fn flush(&mut self) -> Result<(), ()> { Ok(()) }
    }
    impl Seek for ArrDev {
        fn seek(&mut self, pos: SeekFrom) -> Result<u64, ()> {
            match pos {
                SeekFrom::Start(x) if x as usize <= N => { self.pos = x as usize; Ok(x) }
                SeekFrom::Current(0) => Ok(self.pos as u64),
                _ => Err(()),
            }
        }
    }

    #[kani::proof]
    #[kani::unwind(20)]
    fn create_file_atomic_on_error() {
        let dev = ArrDev { data: *IMG, pos: 0 };
        let opts = FsOptions { update_accessed_date: false, oem_cp_converter: LossyOemCpConverter::new(), time_provider: NullTimeProvider::new(), strict: true };
        let fs = FileSystem::new(dev, opts).unwrap();
        let c: u8 = kani::any();
        kani::assume(c < 0x80 && c != b'/');
        let b = [c];
        let name = core::str::from_utf8(&b).unwrap();
        let r = fs.root_dir().create_file(name);
        let failed = r.is_err();
        drop(r);
        if failed {
            let d = fs.disk.borrow();
            let i: usize = kani::any();
            kani::assume(i < N);
            assert!(d.data[i] == IMG[i]);
        }
    }
}
