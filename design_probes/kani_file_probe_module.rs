// design-phase probe (throwaway, not framework): module appended to a scratch copy of src/file.rs
#[cfg(kani)]
mod verif_kani {
    use super::*;
    use crate::fs::verif_kani::mk_fs;

    #[kani::proof]
    #[kani::unwind(6)]
    fn file_read_in_cluster() {
        let fs = mk_fs();
        let cs = fs.cluster_size();
        let offset: u32 = kani::any();
        let cur: u32 = kani::any();
        kani::assume(cur >= 2 && cur < 8177 + 2);
        kani::assume(offset % cs != 0);
        let mut f = File::new(Some(2), None, &fs);
        f.offset = offset;
        f.current_cluster = Some(cur);
        let mut buf = [0u8; 16];
        let n: usize = kani::any();
        kani::assume(n <= 16);
        let r = Read::read(&mut f, &mut buf[..n]);
        let d = fs.disk.borrow();
        assert!(d.writes == 0);
        if let Ok(k) = r {
            assert!(k <= n);
        }
    }
}
