// design-phase probe (throwaway, not framework): module appended to a scratch copy of src/fs.rs
#[cfg(kani)]
pub(crate) mod verif_kani {
    use super::*;
    use crate::time::NullTimeProvider;

    // nondeterministic device: reads return arbitrary bytes, writes are logged (last write pos/len), never stores
    pub(crate) struct NdDev {
        pub pos: u64,
        pub writes: u32,
        pub last_write_pos: u64,
        pub last_write_len: usize,
    }
    impl IoBase for NdDev {
        type Error = ();
    }
    impl Read for NdDev {
        fn read(&mut self, buf: &mut [u8]) -> Result<usize, ()> {
            for b in buf.iter_mut() {
                *b = kani::any();
            }
            self.pos += buf.len() as u64;
            Ok(buf.len())
        }
    }
    impl Write for NdDev {
        fn write(&mut self, buf: &[u8]) -> Result<usize, ()> {
            self.writes += 1;
            self.last_write_pos = self.pos;
            self.last_write_len = buf.len();
            self.pos += buf.len() as u64;
            Ok(buf.len())
        }
        fn flush(&mut self) -> Result<(), ()> {
            Ok(())
        }
    }
    impl Seek for NdDev {
        fn seek(&mut self, pos: SeekFrom) -> Result<u64, ()> {
            match pos {
                SeekFrom::Start(x) => {
                    self.pos = x;
                    Ok(x)
                }
                _ => Err(()),
            }
        }
    }

    pub(crate) fn mk_fs() -> FileSystem<NdDev, NullTimeProvider, LossyOemCpConverter> {
        // FAT16 geometry: 512 B sectors, 4 spc, 1 reserved, 2 FATs x 32 sectors, 512 root entries, 32768 sectors
        let mut bpb = BiosParameterBlock::default();
        bpb.bytes_per_sector = 512;
        bpb.sectors_per_cluster = 4;
        bpb.reserved_sectors = 1;
        bpb.fats = 2;
        bpb.root_entries = 512;
        bpb.total_sectors_16 = 32768;
        bpb.sectors_per_fat_16 = 32;
        let root_dir_sectors = bpb.root_dir_sectors();
        let first_data_sector = bpb.first_data_sector();
        let total_clusters = bpb.total_clusters();
        FileSystem {
            disk: RefCell::new(NdDev { pos: 0, writes: 0, last_write_pos: 0, last_write_len: 0 }),
            options: FsOptions {
                update_accessed_date: false,
                oem_cp_converter: LossyOemCpConverter::new(),
                time_provider: NullTimeProvider::new(),
                strict: true,
            },
            fat_type: FatType::from_clusters(total_clusters),
            bpb,
            first_data_sector,
            root_dir_sectors,
            total_clusters,
            fs_info: RefCell::new(FsInfoSector::default()),
            current_status_flags: Cell::new(FsStatusFlags { dirty: true, io_error: false }),
        }
    }
}
