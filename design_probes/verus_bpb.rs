use vstd::prelude::*;
verus! {

pub const DIR_ENTRY_SIZE: u32 = 32;
pub open spec fn is_pow2(n: int) -> bool { n==1||n==2||n==4||n==8||n==16||n==32||n==64||n==128||n==256||n==512||n==1024||n==2048||n==4096||n==8192||n==16384||n==32768 }
pub assume_specification [ u16::is_power_of_two ] (x: u16) -> (r: bool) ensures r == is_pow2(x as int);


pub enum Error<T> { Io(T), CorruptedFileSystem, InvalidInput }

pub struct Bpb {
    pub bytes_per_sector: u16,
    pub sectors_per_cluster: u8,
    pub reserved_sectors: u16,
    pub fats: u8,
    pub root_entries: u16,
    pub total_sectors_16: u16,
    pub sectors_per_fat_16: u16,
    pub total_sectors_32: u32,
    pub sectors_per_fat_32: u32,
}

impl Bpb {
    pub fn is_fat32(&self) -> bool {
        self.sectors_per_fat_16 == 0
    }
    pub fn sectors_per_fat(&self) -> u32 {
        if self.is_fat32() {
            self.sectors_per_fat_32
        } else {
            u32::from(self.sectors_per_fat_16)
        }
    }
    pub fn root_dir_sectors(&self) -> u32
        requires self.bytes_per_sector >= 512
    {
        let root_dir_bytes = u32::from(self.root_entries) * DIR_ENTRY_SIZE;
        (root_dir_bytes + u32::from(self.bytes_per_sector) - 1) / u32::from(self.bytes_per_sector)
    }
    pub fn sectors_per_all_fats(&self) -> u32 {
        u32::from(self.fats) * self.sectors_per_fat()
    }
    fn validate_bytes_per_sector<E>(&self) -> (r: Result<(), Error<E>>)
        ensures r.is_ok() ==> 512 <= self.bytes_per_sector <= 4096
    {
        if !self.bytes_per_sector.is_power_of_two() {
            return Err(Error::CorruptedFileSystem);
        }
        if self.bytes_per_sector < 512 || self.bytes_per_sector > 4096 {
            return Err(Error::CorruptedFileSystem);
        }
        Ok(())
    }
    fn validate<E>(&self) -> (r: Result<(), Error<E>>)
    {
        self.validate_bytes_per_sector()?;
        Ok(())
    }
}
}
fn main() {}
