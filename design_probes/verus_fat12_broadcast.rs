use vstd::prelude::*;
verus! {
mod specs {
use vstd::prelude::*;

pub enum Error<T> { Io(T), UnexpectedEof, NotEnoughSpace, InvalidInput }
pub enum SeekFrom { Start(u64), End(i64), Current(i64) }
pub trait IoBase { type Error; }

pub open spec fn le16(s: Seq<u8>, p: int) -> u16 { (s[p] as u16) | ((s[p+1] as u16) << 8) }
pub open spec fn put16(s: Seq<u8>, p: int, n: u16) -> Seq<u8> {
    s.update(p, (n & 0xff) as u8).update(p+1, (n >> 8) as u8)
}
pub open spec fn off12(k: int) -> int { k + k / 2 }
pub open spec fn ent12(s: Seq<u8>, k: int) -> u16 {
    if k % 2 == 0 { le16(s, off12(k)) & 0x0FFF } else { le16(s, off12(k)) >> 4 }
}
pub broadcast proof fn lemma_parity(k: u32)
    ensures #[trigger] (k & 1) == 0 <==> (k as int) % 2 == 0
{
    assert((k & 1) == 0 <==> k % 2 == 0) by(bit_vector);
}
pub open spec fn merge12(old_packed: u16, k: int, v: u16) -> u16 {
    if k % 2 == 0 { (old_packed & 0xF000) | v } else { (old_packed & 0x000F) | (v << 4) }
}
proof fn bv_even(o: u16, v: u16) requires v <= 0xFFF
    ensures ((o & 0xF000) | v) & 0x0FFF == v, ((o & 0xF000) | v) >> 12 == o >> 12,
            (((o & 0xF000) | v) & 0xff) as u8 == (v & 0xff) as u8,
{ assert(((o & 0xF000) | v) & 0x0FFF == v) by(bit_vector) requires v <= 0xFFF;
  assert(((o & 0xF000) | v) >> 12 == o >> 12) by(bit_vector) requires v <= 0xFFF;
}


pub trait Stream: IoBase + Sized {
    spec fn bytes(&self) -> Seq<u8>;
    spec fn pos(&self) -> int;
    fn seek(&mut self, pos: SeekFrom) -> (r: Result<u64, Self::Error>)
        ensures final(self).bytes() == old(self).bytes(),
            match (pos, r) { (SeekFrom::Start(x), Ok(p)) => p == x && final(self).pos() == x && x <= old(self).bytes().len(), _ => true };
    fn read_u8(&mut self) -> (r: Result<u8, Self::Error>)
        ensures final(self).bytes() == old(self).bytes(),
            r.is_ok() ==> old(self).pos() + 1 <= old(self).bytes().len() && final(self).pos() == old(self).pos() + 1
                && r->Ok_0 == old(self).bytes()[old(self).pos()];
    fn read_u16_le(&mut self) -> (r: Result<u16, Self::Error>)
        ensures final(self).bytes() == old(self).bytes(),
            r.is_ok() ==> old(self).pos() + 2 <= old(self).bytes().len() && final(self).pos() == old(self).pos() + 2
                && r->Ok_0 == le16(old(self).bytes(), old(self).pos());
    fn write_u16_le(&mut self, n: u16) -> (r: Result<(), Self::Error>)
        ensures final(self).bytes().len() == old(self).bytes().len(),
            r.is_ok() ==> old(self).pos() + 2 <= old(self).bytes().len() && final(self).pos() == old(self).pos() + 2
                && final(self).bytes() == put16(old(self).bytes(), old(self).pos(), n);
}

} // mod specs
mod code {
use super::specs::*;
use vstd::prelude::*;
broadcast use lemma_parity;

fn get_raw<S, E>(fat: &mut S, cluster: u32) -> (r: Result<u32, Error<E>>)
    where S: Stream, Error<E>: From<S::Error>,
    requires cluster < 0x1000,
    ensures final(fat).bytes() == old(fat).bytes(),
        r.is_ok() ==> r->Ok_0 == ent12(old(fat).bytes(), cluster as int),
{
    let fat_offset = cluster + (cluster / 2);
    fat.seek(SeekFrom::Start(u64::from(fat_offset)))?;
    let packed_val = fat.read_u16_le()?;
    Ok(u32::from(match cluster & 1 {
        0 => packed_val & 0x0FFF,
        _ => packed_val >> 4,
    }))
}

fn set_raw<S, E>(fat: &mut S, cluster: u32, raw_val: u32) -> (r: Result<(), Error<E>>)
    where S: Stream, Error<E>: From<S::Error>,
    requires cluster < 0x1000, raw_val <= 0xFFF,
    ensures final(fat).bytes().len() == old(fat).bytes().len(),
        r.is_ok() ==> ent12(final(fat).bytes(), cluster as int) == raw_val
           && forall|j: int| 0 <= j && j != cluster && off12(j) + 2 <= old(fat).bytes().len() ==> #[trigger] ent12(final(fat).bytes(), j) == ent12(old(fat).bytes(), j),
{
    let fat_offset = cluster + (cluster / 2);
    fat.seek(SeekFrom::Start(u64::from(fat_offset)))?;
    let old_packed = fat.read_u16_le()?;
    fat.seek(SeekFrom::Start(u64::from(fat_offset)))?;
    let new_packed = match cluster & 1 {
        0 => (old_packed & 0xF000) | raw_val as u16,
        _ => (old_packed & 0x000F) | ((raw_val as u16) << 4),
    };
    fat.write_u16_le(new_packed)?;
    Ok(())
}
}
}
fn main() {}
