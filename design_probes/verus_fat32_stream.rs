use vstd::prelude::*;
verus! {

pub enum Error<T> { Io(T), UnexpectedEof, NotEnoughSpace, InvalidInput }

pub enum SeekFrom { Start(u64), End(i64), Current(i64) }

pub trait IoBase { type Error; }

// ghost view of a seekable byte stream: contents + cursor
pub trait Stream: IoBase + Sized {
    spec fn bytes(&self) -> Seq<u8>;
    spec fn pos(&self) -> int;

    fn seek(&mut self, pos: SeekFrom) -> (r: Result<u64, Self::Error>)
        ensures
            final(self).bytes() == old(self).bytes(),
            match (pos, r) {
                (SeekFrom::Start(x), Ok(p)) => p == x && final(self).pos() == x,
                (_, Ok(p)) => true,
                (_, Err(_)) => true,
            };

    fn read_u32_le(&mut self) -> (r: Result<u32, Self::Error>)
        ensures
            final(self).bytes() == old(self).bytes(),
            r.is_ok() ==> old(self).pos() + 4 <= old(self).bytes().len()
                && final(self).pos() == old(self).pos() + 4
                && r->Ok_0 == le32(old(self).bytes(), old(self).pos());

    fn write_u32_le(&mut self, n: u32) -> (r: Result<(), Self::Error>)
        ensures
            r.is_ok() ==> old(self).pos() + 4 <= old(self).bytes().len()
                && final(self).pos() == old(self).pos() + 4
                && final(self).bytes() == put32(old(self).bytes(), old(self).pos(), n);
}

pub open spec fn le32(s: Seq<u8>, p: int) -> u32 {
    (s[p] as u32) | ((s[p+1] as u32) << 8) | ((s[p+2] as u32) << 16) | ((s[p+3] as u32) << 24)
}
pub open spec fn put32(s: Seq<u8>, p: int, n: u32) -> Seq<u8> {
    s.update(p, (n & 0xff) as u8).update(p+1, ((n >> 8) & 0xff) as u8).update(p+2, ((n >> 16) & 0xff) as u8).update(p+3, ((n >> 24) & 0xff) as u8)
}

pub open spec fn ent32(s: Seq<u8>, k: int) -> u32 { le32(s, k*4) & 0x0FFF_FFFF }
pub enum FatValue { Free, Data(u32), Bad, EndOfChain }


fn get_raw<S, E>(fat: &mut S, cluster: u32) -> (r: Result<u32, Error<E>>)
    where S: Stream, Error<E>: From<S::Error>,
    requires cluster < 0x4000_0000,
    ensures final(fat).bytes() == old(fat).bytes(),
        r.is_ok() ==> cluster as int * 4 + 4 <= old(fat).bytes().len() && r->Ok_0 == le32(old(fat).bytes(), cluster as int * 4),
{
    fat.seek(SeekFrom::Start(u64::from(cluster * 4)))?;
    Ok(fat.read_u32_le()?)
}

fn find_free<S, E>(fat: &mut S, start_cluster: u32, end_cluster: u32) -> (r: Result<u32, Error<E>>)
    where S: Stream, Error<E>: From<S::Error>,
    requires end_cluster < 0x4000_0000, start_cluster <= end_cluster
    ensures final(fat).bytes() == old(fat).bytes(),
        match r {
            Ok(c) => start_cluster <= c < end_cluster && ent32(old(fat).bytes(), c as int) == 0
                && forall|k: int| start_cluster <= k < c ==> ent32(old(fat).bytes(), k) != 0,
            Err(Error::NotEnoughSpace) => forall|k: int| start_cluster <= k < end_cluster ==> ent32(old(fat).bytes(), k) != 0,
            Err(_) => true,
        }
{
    let mut cluster = start_cluster;
    fat.seek(SeekFrom::Start(u64::from(cluster * 4)))?;
    while cluster < end_cluster
        invariant start_cluster <= cluster <= end_cluster, end_cluster < 0x4000_0000,
            fat.bytes() == old(fat).bytes(), fat.pos() == cluster as int * 4,
            forall|k: int| start_cluster <= k < cluster ==> ent32(old(fat).bytes(), k) != 0,
        decreases end_cluster - cluster
    {
        let val = fat.read_u32_le()? & 0x0FFF_FFFF;
        if val == 0 {
            return Ok(cluster);
        }
        cluster += 1;
    }
    Err(Error::NotEnoughSpace)
}
}
fn main() {}
