use vstd::prelude::*;
verus! {
pub const LFN_PART_LEN: usize = 13;
pub const MAX_LONG_DIR_ENTRIES: usize = 20;
pub const LFN_ENTRY_LAST_FLAG: u8 = 0x40;

pub struct DirLfnEntryData { pub order: u8, pub name_0: [u16; 5], pub checksum: u8, pub name_1: [u16; 6], pub name_2: [u16; 2] }
impl DirLfnEntryData {
    pub fn order(&self) -> (r: u8) ensures r == self.order { self.order }
    pub fn checksum(&self) -> (r: u8) ensures r == self.checksum { self.checksum }
    pub fn copy_name_to_slice(&self, lfn_part: &mut [u16])
        requires old(lfn_part).len() == 13
        ensures final(lfn_part).len() == 13
    {
        lfn_part[0..5].copy_from_slice(&self.name_0);
        lfn_part[5..11].copy_from_slice(&self.name_1);
        lfn_part[11..13].copy_from_slice(&self.name_2);
    }
}
pub struct LfnBuffer { pub ucs2_units: Vec<u16> }
impl LfnBuffer {
    fn clear(&mut self) ensures final(self).ucs2_units@.len() == 0 { self.ucs2_units.clear(); }
    fn set_len(&mut self, len: usize) ensures final(self).ucs2_units@.len() == len { self.ucs2_units.resize(len, 0_u16); }
}
pub struct LongNameBuilder { pub buf: LfnBuffer, pub chksum: u8, pub index: u8 }
impl LongNameBuilder {
    pub open spec fn inv(&self) -> bool { self.index as int * 13 <= self.buf.ucs2_units@.len() <= 260 }
    fn clear(&mut self) ensures final(self).inv() { self.buf.clear(); self.index = 0; }
    fn process(&mut self, data: &DirLfnEntryData)
        requires old(self).inv()
        ensures final(self).inv()
    {
        let is_last = (data.order() & LFN_ENTRY_LAST_FLAG) != 0;
        let index = data.order() & 0x1F;
        if index == 0 || usize::from(index) > MAX_LONG_DIR_ENTRIES {
            self.clear();
            return;
        }
        if is_last {
            self.index = index;
            self.chksum = data.checksum();
            self.buf.set_len(usize::from(index) * LFN_PART_LEN);
        } else if self.index == 0 || index != self.index - 1 || data.checksum() != self.chksum {
            self.clear();
            return;
        } else {
            self.index -= 1;
        }
        let pos = LFN_PART_LEN * usize::from(index - 1);
        data.copy_name_to_slice(&mut self.buf.ucs2_units[pos..pos + 13]);
    }
}
}
fn main() {}
