// Native demonstration of finding F7 (C15): a name ending in U+FFFF is accepted by create_file but listed without
// its last character (0xFFFF is the long-name padding value and is trimmed when the name is read back).
// Run in a checkout of the crate as tests/f7_demo.rs:  cargo test --offline --test f7_demo
use std::io::Cursor;

use fatfs::{FileSystem, FormatVolumeOptions, FsOptions, StdIoWrapper};

#[test]
fn accepted_name_is_listed_character_for_character() {
    let mut cursor = Cursor::new(vec![0_u8; 1024 * 1024]);
    fatfs::format_volume(&mut StdIoWrapper::from(&mut cursor), FormatVolumeOptions::new()).expect("format");
    cursor.set_position(0);
    let fs = FileSystem::new(StdIoWrapper::from(&mut cursor), FsOptions::new()).expect("mount");
    let root = fs.root_dir();
    let name = "a\u{FFFF}";
    let created = match root.create_file(name) {
        Ok(_) => true,
        Err(fatfs::Error::UnsupportedFileNameCharacter) => false, // rejecting the name is fine too
        Err(e) => panic!("unexpected error {:?}", e),
    };
    if created {
        let listed: Vec<String> = root.iter().map(|e| e.unwrap().file_name()).collect();
        assert_eq!(listed, vec![name.to_string()], "an accepted name must be listed unchanged");
    }
}
