// Native demonstration of finding F8a (C17): a crafted (corrupt but checksum-consistent) long-name run of 20
// slots whose 260 units are all ordinary characters is returned as a 260-unit name; the property requires
// "names returned never exceed 255 UTF-16 units".
// Run in a checkout of the crate as tests/f8a_demo.rs:  cargo test --offline --test f8a_demo
use std::io::Cursor;

use fatfs::{FileSystem, FormatVolumeOptions, FsOptions, StdIoWrapper};

fn lfn_checksum(short_name: &[u8; 11]) -> u8 {
    let mut sum: u8 = 0;
    for b in short_name {
        sum = (((sum & 1) << 7) as u8).wrapping_add(sum >> 1).wrapping_add(*b);
    }
    sum
}

fn lfn_slot(order: u8, checksum: u8, units: &[u16; 13]) -> [u8; 32] {
    let mut s = [0u8; 32];
    s[0] = order;
    s[11] = 0x0F;
    s[13] = checksum;
    let offs = [1, 3, 5, 7, 9, 14, 16, 18, 20, 22, 24, 28, 30];
    for (i, o) in offs.iter().enumerate() {
        s[*o] = (units[i] & 0xFF) as u8;
        s[*o + 1] = (units[i] >> 8) as u8;
    }
    s
}

#[test]
fn names_never_exceed_255_units() {
    let mut cursor = Cursor::new(vec![0_u8; 1024 * 1024]);
    fatfs::format_volume(&mut StdIoWrapper::from(&mut cursor), FormatVolumeOptions::new()).expect("format");
    let img = cursor.get_ref().clone();
    let bps = u16::from_le_bytes([img[11], img[12]]) as usize;
    let reserved = u16::from_le_bytes([img[14], img[15]]) as usize;
    let fats = img[16] as usize;
    let spf = u16::from_le_bytes([img[22], img[23]]) as usize;
    let root = (reserved + fats * spf) * bps;
    let sfn: [u8; 11] = *b"SHORT   TXT";
    let chk = lfn_checksum(&sfn);
    let data = cursor.get_mut();
    for i in 0..20usize {
        let n = 20 - i as u8;
        let order = if i == 0 { n | 0x40 } else { n };
        let slot = lfn_slot(order, chk, &[b'A' as u16; 13]);
        data[root + 32 * i..root + 32 * i + 32].copy_from_slice(&slot);
    }
    let mut short = [0u8; 32];
    short[..11].copy_from_slice(&sfn);
    short[11] = 0x20;
    data[root + 640..root + 672].copy_from_slice(&short);
    cursor.set_position(0);
    let fs = FileSystem::new(StdIoWrapper::from(&mut cursor), FsOptions::new()).expect("mount");
    let root_dir = fs.root_dir();
    let e = root_dir.iter().next().expect("one entry").expect("no error");
    let len = e.long_file_name_as_ucs2_units().map_or(0, |u| u.len());
    assert!(len <= 255, "long name of {} UTF-16 units returned", len);
}
