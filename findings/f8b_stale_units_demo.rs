// Native demonstration of finding F8b (C17 / C19): in the build WITHOUT `alloc` (fixed [u16; 260] long-name
// buffer) a long-name run that is abandoned and restarted by a shorter run leaks units of the abandoned run
// into the name returned ("foreign long name"); the `alloc` build returns the correct name.
//
// Run in a checkout of the crate as tests/f8b_demo.rs:
//   cargo test --offline --no-default-features --features std,alloc,lfn,unicode --test f8b_demo   (passes)
//   cargo test --offline --no-default-features --features std,lfn,unicode --test f8b_demo         (fails before the fix)
use std::io::Cursor;

use fatfs::{FileSystem, FormatVolumeOptions, FsOptions, NullTimeProvider, StdIoWrapper};

fn lfn_checksum(short_name: &[u8; 11]) -> u8 {
    let mut sum: u8 = 0;
    for b in short_name {
        sum = (((sum & 1) << 7) as u8).wrapping_add(sum >> 1).wrapping_add(*b);
    }
    sum
}

fn lfn_slot(order: u8, checksum: u8, units: &[u16; 13]) -> [u8; 32] {
    let mut s = [0u8; 32];
    s[0] = order;
    s[11] = 0x0F;
    s[13] = checksum;
    let offs = [1, 3, 5, 7, 9, 14, 16, 18, 20, 22, 24, 28, 30];
    for (i, o) in offs.iter().enumerate() {
        s[*o] = (units[i] & 0xFF) as u8;
        s[*o + 1] = (units[i] >> 8) as u8;
    }
    s
}

#[test]
fn restarted_long_name_run_does_not_leak_abandoned_units() {
    let mut cursor = Cursor::new(vec![0_u8; 1024 * 1024]);
    fatfs::format_volume(&mut StdIoWrapper::from(&mut cursor), FormatVolumeOptions::new()).expect("format");
    let img = cursor.get_ref().clone();
    let bps = u16::from_le_bytes([img[11], img[12]]) as usize;
    let reserved = u16::from_le_bytes([img[14], img[15]]) as usize;
    let fats = img[16] as usize;
    let spf = u16::from_le_bytes([img[22], img[23]]) as usize;
    assert!(spf != 0, "expected a FAT12/16 volume with a fixed root directory");
    let root = (reserved + fats * spf) * bps;

    let sfn: [u8; 11] = *b"SHORT   TXT";
    // slot 1: first physical slot (order 2|0x40) of a 2-slot run belonging to some other, vanished entry
    let orphan = lfn_slot(0x42, 0x77, &[0x5A; 13]); // "ZZZZZZZZZZZZZ" at units 13..26
    // slots 2-3: a complete 1-slot run "ab" + the short entry it belongs to
    let mut units = [0xFFFFu16; 13];
    units[0] = b'a' as u16;
    units[1] = b'b' as u16;
    units[2] = 0;
    let good = lfn_slot(0x41, lfn_checksum(&sfn), &units);
    let mut short = [0u8; 32];
    short[..11].copy_from_slice(&sfn);
    short[11] = 0x20;
    let data = cursor.get_mut();
    data[root..root + 32].copy_from_slice(&orphan);
    data[root + 32..root + 64].copy_from_slice(&good);
    data[root + 64..root + 96].copy_from_slice(&short);

    cursor.set_position(0);
    let fs = FileSystem::new(StdIoWrapper::from(&mut cursor), FsOptions::new().time_provider(NullTimeProvider::new())).expect("mount");
    let root_dir = fs.root_dir();
    let e = root_dir.iter().next().expect("one entry").expect("no error");
    let name: Vec<u16> = e.long_file_name_as_ucs2_units().map(|u| u.to_vec()).unwrap_or_default();
    assert_eq!(name, vec![b'a' as u16, b'b' as u16], "long name must be exactly the restarted run's units");
}
