// Kani obligations for src/boot_sector.rs (child module: sees private items of the real code).
// Every harness is loop-free over fully symbolic inputs unless its @bound says otherwise.
#![allow(dead_code, unused_imports, unused_variables)]
use super::*;
use crate::verif_common::*;

pub(crate) fn any_bpb() -> BiosParameterBlock {
    BiosParameterBlock {
        bytes_per_sector: kani::any(),
        sectors_per_cluster: kani::any(),
        reserved_sectors: kani::any(),
        fats: kani::any(),
        root_entries: kani::any(),
        total_sectors_16: kani::any(),
        media: kani::any(),
        sectors_per_fat_16: kani::any(),
        sectors_per_track: kani::any(),
        heads: kani::any(),
        hidden_sectors: kani::any(),
        total_sectors_32: kani::any(),
        sectors_per_fat_32: kani::any(),
        extended_flags: kani::any(),
        fs_version: kani::any(),
        root_dir_first_cluster: kani::any(),
        fs_info_sector: kani::any(),
        backup_boot_sector: kani::any(),
        reserved_0: kani::any(),
        drive_num: kani::any(),
        reserved_1: kani::any(),
        ext_sig: kani::any(),
        volume_id: kani::any(),
        volume_label: kani::any(),
        fs_type_label: kani::any(),
    }
}

/// wrapper so that harness modules of other source files can call the (private) real validate()
pub(crate) fn bpb_validate_ok(b: &BiosParameterBlock) -> bool {
    b.validate::<()>().is_ok()
}

/// contract stub of BootSector::deserialize (its contract - every field is the specification's layout parse of the
/// 512 bytes read - is proved by codec_bpb_parse / codec_boot_sector_frame / _full): ANY field values may come out
pub(crate) fn stub_boot_deserialize<R: Read>(_rdr: &mut R) -> Result<BootSector, R::Error> {
    let mut boot = BootSector::default();
    boot.bpb = any_bpb();
    boot.bootjmp = kani::any();
    boot.boot_sig = kani::any();
    Ok(boot)
}

/// the 512-byte image of a boot sector with this BPB (built with the real serializer; used as a concrete
/// valid volume prefix by mount harnesses)
pub(crate) fn boot_image(bpb: BiosParameterBlock) -> [u8; 512] {
    let mut boot = BootSector::default();
    boot.bpb = bpb;
    boot.bootjmp = [0xEB, 0x58, 0x90];
    boot.boot_sig = [0x55, 0xAA];
    let mut out = MemDev::<512>::zeroed();
    let r = boot.serialize(&mut out);
    assert!(r.is_ok());
    out.data
}

/// Geometry derived in unbounded (u64) arithmetic straight from the FAT specification.
pub(crate) struct Geo {
    pub fat32: bool,
    pub spf: u64,
    pub total: u64,
    pub root_secs: u64,
    pub first_data: u64,
    pub clusters: u64,
}

pub(crate) fn geo(b: &BiosParameterBlock) -> Option<Geo> {
    let bps = b.bytes_per_sector as u64;
    let spc = b.sectors_per_cluster as u64;
    if bps == 0 || spc == 0 {
        return None;
    }
    let fat32 = b.sectors_per_fat_16 == 0;
    let spf = if fat32 { b.sectors_per_fat_32 as u64 } else { b.sectors_per_fat_16 as u64 };
    let total = if b.total_sectors_16 != 0 { b.total_sectors_16 as u64 } else { b.total_sectors_32 as u64 };
    let root_secs = (b.root_entries as u64 * 32 + bps - 1) / bps;
    let first_data = b.reserved_sectors as u64 + b.fats as u64 * spf + root_secs;
    if first_data >= total {
        return None;
    }
    let clusters = (total - first_data) / spc;
    Some(Geo { fat32, spf, total, root_secs, first_data, clusters })
}

/// wf_bpb of DESIGN.md 4.1: written from the specification and the statement of C07, not from validate().
pub(crate) fn wf_bpb(b: &BiosParameterBlock) -> bool {
    let bps = b.bytes_per_sector;
    if !(bps == 512 || bps == 1024 || bps == 2048 || bps == 4096) {
        return false;
    }
    let spc = b.sectors_per_cluster;
    if !(spc == 1 || spc == 2 || spc == 4 || spc == 8 || spc == 16 || spc == 32 || spc == 64 || spc == 128) {
        return false;
    }
    if b.reserved_sectors == 0 || b.fats == 0 {
        return false;
    }
    let g = match geo(b) {
        Some(g) => g,
        None => return false, // metadata regions do not fit in the declared size (computed without wrap)
    };
    if g.spf == 0 || g.total == 0 {
        return false;
    }
    if g.fat32 && (b.root_entries != 0 || b.total_sectors_16 != 0) {
        return false;
    }
    if !g.fat32 && b.root_entries == 0 {
        return false;
    }
    if b.total_sectors_16 != 0 && b.total_sectors_32 != 0 && b.total_sectors_16 as u32 != b.total_sectors_32 {
        return false;
    }
    // FAT width consistent with the cluster count
    if g.fat32 != (g.clusters >= 65525) {
        return false;
    }
    if g.fat32 {
        if g.clusters > 0x0FFF_FFFF {
            return false;
        }
        let rc = b.root_dir_first_cluster as u64;
        if rc < 2 || rc >= g.clusters + 2 {
            return false;
        }
        if b.fs_info_sector >= b.reserved_sectors || b.backup_boot_sector >= b.reserved_sectors {
            return false;
        }
        if b.fs_version != 0 {
            return false;
        }
    }
    true
}

// @obl props=C07 tier=quick fns=BiosParameterBlock::validate,BiosParameterBlock::validate_total_sectors,BiosParameterBlock::validate_total_clusters,BiosParameterBlock::first_data_sector,BiosParameterBlock::sectors_per_all_fats,BiosParameterBlock::total_clusters,BootSector::validate
// @desc forall values of all 25 BPB fields, boot_sig, bootjmp, strict: BootSector::validate returns; no overflow, no division by zero, no panic
#[kani::proof]
fn validate_total() {
    let mut boot = BootSector::default();
    boot.bpb = any_bpb();
    boot.boot_sig = kani::any();
    boot.bootjmp = kani::any();
    let strict: bool = kani::any();
    let r = boot.validate::<()>(strict);
    kani::cover!(r.is_ok());
    kani::cover!(r.is_err());
}

// @obl props=C07 tier=quick fns=BiosParameterBlock::validate,BootSector::validate
// @desc validate Ok ==> wf_bpb (spec geometry in u64: pow2 sector 512..4096 and cluster, fats/spf nonzero, regions fit without 32-bit wrap, width consistent with cluster count, FAT32 root cluster in [2,clusters+2), fsinfo/backup < reserved); strict ==> signature 55AA
#[kani::proof]
fn validate_sound() {
    let mut boot = BootSector::default();
    boot.bpb = any_bpb();
    boot.boot_sig = kani::any();
    let strict: bool = kani::any();
    let r = boot.validate::<()>(strict);
    if r.is_ok() {
        assert!(wf_bpb(&boot.bpb));
        if strict {
            assert!(boot.boot_sig == [0x55, 0xAA]);
        }
    } else {
        assert!(matches!(r, Err(Error::CorruptedFileSystem)));
    }
    kani::cover!(r.is_ok() && boot.bpb.is_fat32());
    kani::cover!(r.is_ok() && !boot.bpb.is_fat32());
}

// @obl props=C07,C20 tier=quick fns=BiosParameterBlock::total_clusters,BiosParameterBlock::first_data_sector,BiosParameterBlock::root_dir_sectors,BiosParameterBlock::cluster_size,BiosParameterBlock::sectors_per_fat,BiosParameterBlock::total_sectors,FatType::from_clusters
// @desc validate Ok ==> the accepted FAT width, cluster size, cluster count, first data sector, root-dir sectors equal an independent u64 derivation from the same fields (exact also at the 2^32-1 sector extreme)
#[kani::proof]
fn derived_equal_independent() {
    let b = any_bpb();
    if b.validate::<()>().is_ok() {
        let g = geo(&b);
        assert!(g.is_some());
        let g = g.unwrap();
        assert!(b.total_sectors() as u64 == g.total);
        assert!(b.sectors_per_fat() as u64 == g.spf);
        assert!(b.root_dir_sectors() as u64 == g.root_secs);
        assert!(b.first_data_sector() as u64 == g.first_data);
        assert!(b.total_clusters() as u64 == g.clusters);
        assert!(b.cluster_size() as u64 == b.bytes_per_sector as u64 * b.sectors_per_cluster as u64);
        let ft = FatType::from_clusters(b.total_clusters());
        let want = if g.clusters < 4085 {
            FatType::Fat12
        } else if g.clusters < 65525 {
            FatType::Fat16
        } else {
            FatType::Fat32
        };
        assert!(ft == want);
        assert!((ft == FatType::Fat32) == b.is_fat32());
        kani::cover!(ft == FatType::Fat12);
        kani::cover!(ft == FatType::Fat16);
        kani::cover!(ft == FatType::Fat32 && b.total_sectors() == u32::MAX);
    }
}

fn expect_fields(bytes: &[u8; 512], b: &BiosParameterBlock) {
    assert!(b.bytes_per_sector == le16(bytes, 11));
    assert!(b.sectors_per_cluster == bytes[13]);
    assert!(b.reserved_sectors == le16(bytes, 14));
    assert!(b.fats == bytes[16]);
    assert!(b.root_entries == le16(bytes, 17));
    assert!(b.total_sectors_16 == le16(bytes, 19));
    assert!(b.media == bytes[21]);
    assert!(b.sectors_per_fat_16 == le16(bytes, 22));
    assert!(b.sectors_per_track == le16(bytes, 24));
    assert!(b.heads == le16(bytes, 26));
    assert!(b.hidden_sectors == le32(bytes, 28));
    assert!(b.total_sectors_32 == le32(bytes, 32));
    let fat32 = le16(bytes, 22) == 0;
    let o = if fat32 { 64 } else { 36 };
    if fat32 {
        assert!(b.sectors_per_fat_32 == le32(bytes, 36));
        assert!(b.extended_flags == le16(bytes, 40));
        assert!(b.fs_version == le16(bytes, 42));
        assert!(b.root_dir_first_cluster == le32(bytes, 44));
        assert!(b.fs_info_sector == le16(bytes, 48));
        assert!(b.backup_boot_sector == le16(bytes, 50));
        let mut i = 0;
        while i < 12 {
            assert!(b.reserved_0[i] == bytes[52 + i]);
            i += 1;
        }
    } else {
        assert!(b.sectors_per_fat_32 == 0 && b.extended_flags == 0 && b.fs_version == 0);
        assert!(b.root_dir_first_cluster == 0 && b.fs_info_sector == 0 && b.backup_boot_sector == 0);
    }
    assert!(b.drive_num == bytes[o]);
    assert!(b.reserved_1 == bytes[o + 1]);
    assert!(b.ext_sig == bytes[o + 2]);
    if bytes[o + 2] == 0x29 {
        assert!(b.volume_id == le32(bytes, o + 3));
        let mut i = 0;
        while i < 11 {
            assert!(b.volume_label[i] == bytes[o + 7 + i]);
            i += 1;
        }
        let mut i = 0;
        while i < 8 {
            assert!(b.fs_type_label[i] == bytes[o + 18 + i]);
            i += 1;
        }
    } else {
        assert!(b.volume_id == 0 && b.volume_label == [0u8; 11] && b.fs_type_label == [0u8; 8]);
    }
}

// @obl props=C04,C07,C08 tier=quick fns=BiosParameterBlock::deserialize
// @desc forall 79 bytes at offsets 11..90: BiosParameterBlock::deserialize returns Ok without panic and every field equals the specification's layout parse (offset, width, little endian; FAT12/16 vs FAT32 layout switched on bytes 22-23 == 0; ext_sig != 0x29 clears volume id, label, fs type); consumes exactly 51 / 79 bytes
#[kani::proof]
#[kani::unwind(14)]
fn codec_bpb_parse() {
    let mut dev = MemDev::<512>::any();
    dev.pos = 11;
    let bytes = dev.data;
    let r = BiosParameterBlock::deserialize(&mut dev);
    assert!(r.is_ok());
    let bpb = r.unwrap();
    expect_fields(&bytes, &bpb);
    assert!(dev.pos == if le16(&bytes, 22) == 0 { 90 } else { 62 });
    kani::cover!(bpb.is_fat32());
    kani::cover!(!bpb.is_fat32() && bpb.ext_sig == 0x29);
}

// @obl props=C04,C06 tier=quick fns=BiosParameterBlock::serialize,BiosParameterBlock::deserialize
// @desc forall BPB bytes b: serialize(deserialize(b)) reproduces b at the same offsets except the three ext_sig-dependent fields (b's when ext_sig == 0x29, zero otherwise): serialize is the layout inverse of the parse, for both layouts
#[kani::proof]
#[kani::unwind(14)]
fn codec_bpb_roundtrip() {
    let mut dev = MemDev::<512>::any();
    dev.pos = 11;
    let bytes = dev.data;
    let bpb = BiosParameterBlock::deserialize(&mut dev).unwrap();
    let mut out = MemDev::<512>::zeroed();
    out.pos = 11;
    assert!(bpb.serialize(&mut out).is_ok());
    let fat32 = le16(&bytes, 22) == 0;
    let o = if fat32 { 64 } else { 36 };
    assert!(out.pos == o + 26);
    let i: usize = kani::any();
    kani::assume(i >= 11 && i < o + 26);
    let dependent = i >= o + 3;
    if !dependent || bytes[o + 2] == 0x29 {
        assert!(out.data[i] == bytes[i]);
    } else {
        assert!(out.data[i] == 0);
    }
    kani::cover!(fat32 && dependent);
    kani::cover!(!fat32 && !dependent);
}

fn boot_frame(mut bytes: [u8; 512], spf16: Option<u16>) {
    if let Some(v) = spf16 {
        // concrete discriminator: the layout branch folds and the stream position stays concrete
        bytes[22] = (v & 0xFF) as u8;
        bytes[23] = (v >> 8) as u8;
    }
    let mut dev = MemDev::<512>::from(bytes);
    let r = BootSector::deserialize(&mut dev);
    assert!(r.is_ok());
    let boot = r.unwrap();
    expect_fields(&bytes, &boot.bpb);
    assert!(boot.bootjmp[0] == bytes[0] && boot.bootjmp[1] == bytes[1] && boot.bootjmp[2] == bytes[2]);
    let k: usize = kani::any();
    kani::assume(k < 8);
    assert!(boot.oem_name[k] == bytes[3 + k]);
    let fat32 = le16(&bytes, 22) == 0;
    let (code_off, code_len) = if fat32 { (90, 420) } else { (62, 448) };
    let j: usize = kani::any();
    kani::assume(j < code_len);
    assert!(boot.boot_code[j] == bytes[code_off + j]);
    assert!(boot.boot_sig[0] == bytes[510] && boot.boot_sig[1] == bytes[511]);
    assert!(dev.pos == 512);
    // and back
    let mut out = MemDev::<512>::zeroed();
    assert!(boot.serialize(&mut out).is_ok());
    assert!(out.pos == 512);
    let o = if fat32 { 64 } else { 36 };
    let i: usize = kani::any();
    kani::assume(i < 512);
    let dependent = i >= o + 3 && i < o + 26;
    if !dependent || bytes[o + 2] == 0x29 {
        assert!(out.data[i] == bytes[i]);
    } else {
        assert!(out.data[i] == 0);
    }
    kani::cover!(dependent);
    kani::cover!(i >= 510);
}

// @obl props=C04,C07,C08 tier=quick fns=BootSector::deserialize
// @bound bounded: boot-code placement checked at indices {0,1,419,420,447} only (all 512 input bytes symbolic); the complete version is codec_boot_sector_full, thorough tier
// @desc forall 512 bytes: BootSector::deserialize is total, consumes exactly 512 bytes, jump and signature sit at offsets 0 and 510, boot code starts at 62 (FAT12/16, 448 bytes) or 90 (FAT32, 420 bytes)
#[kani::proof]
#[kani::unwind(450)]
fn codec_boot_sector_frame() {
    let bytes: [u8; 512] = kani::any();
    let mut dev = MemDev::<512>::from(bytes);
    let r = BootSector::deserialize(&mut dev);
    assert!(r.is_ok());
    let boot = r.unwrap();
    assert!(boot.bootjmp[0] == bytes[0] && boot.bootjmp[1] == bytes[1] && boot.bootjmp[2] == bytes[2]);
    assert!(boot.boot_sig[0] == bytes[510] && boot.boot_sig[1] == bytes[511]);
    assert!(dev.pos == 512);
    if le16(&bytes, 22) == 0 {
        assert!(boot.boot_code[0] == bytes[90] && boot.boot_code[1] == bytes[91] && boot.boot_code[419] == bytes[509]);
        assert!(boot.boot_code[420] == 0 && boot.boot_code[447] == 0);
    } else {
        assert!(boot.boot_code[0] == bytes[62] && boot.boot_code[1] == bytes[63] && boot.boot_code[419] == bytes[481]);
        assert!(boot.boot_code[420] == bytes[482] && boot.boot_code[447] == bytes[509]);
    }
    kani::cover!(le16(&bytes, 22) == 0);
    kani::cover!(le16(&bytes, 22) != 0);
}

// @obl props=C04,C07,C08 tier=thorough fns=BootSector::deserialize,BootSector::serialize timeout=3000
// @desc forall 512 bytes (no restriction): the contract of codec_boot_sector_frame
#[kani::proof]
#[kani::unwind(450)]
fn codec_boot_sector_full() {
    let bytes: [u8; 512] = kani::any();
    boot_frame(bytes, None);
}

// ------------------------------------------------------------------------------------------------
// C06 formatting arithmetic
// ------------------------------------------------------------------------------------------------

pub(crate) fn bits(ft: FatType) -> u64 {
    match ft {
        FatType::Fat12 => 12,
        FatType::Fat16 => 16,
        FatType::Fat32 => 32,
    }
}

/// valid_fresh of DESIGN.md (C06): stated from the property and the FAT specification.
pub(crate) fn check_fresh(opts: &FormatVolumeOptions, total: u32, boot: &BootSector, ft: FatType) {
    let b = &boot.bpb;
    assert!(wf_bpb_fmt(b));
    let g = geo(b).unwrap();
    assert!(g.total == total as u64);
    // width follows from the cluster count and equals any requested width
    let want = if g.clusters < 4085 {
        FatType::Fat12
    } else if g.clusters < 65525 {
        FatType::Fat16
    } else {
        FatType::Fat32
    };
    assert!(ft == want);
    if let Some(req) = opts.fat_type {
        assert!(req == ft);
    }
    assert!((ft == FatType::Fat32) == g.fat32);
    // each table can address every cluster
    assert!(g.spf * (b.bytes_per_sector as u64) * 8 / bits(ft) >= g.clusters + 2);
    // all regions fit inside the declared size
    assert!(g.first_data + g.clusters * (b.sectors_per_cluster as u64) <= total as u64);
    if g.fat32 {
        assert!(b.root_dir_first_cluster == 2 && b.fs_info_sector == 1 && b.backup_boot_sector == 6);
        assert!(b.reserved_sectors > 6);
        assert!(g.clusters <= 0x0FFF_FFF4);
        assert!(b.fs_type_label == *b"FAT32   ");
    } else if ft == FatType::Fat16 {
        assert!(b.fs_type_label == *b"FAT16   ");
    } else {
        assert!(b.fs_type_label == *b"FAT12   ");
    }
    // option fields copied
    assert!(b.bytes_per_sector == opts.bytes_per_sector);
    assert!(b.fats == opts.fats);
    assert!(b.media == opts.media);
    assert!(b.sectors_per_track == opts.sectors_per_track && b.heads == opts.heads);
    assert!(b.volume_id == opts.volume_id);
    assert!(b.ext_sig == 0x29);
    match opts.volume_label {
        Some(l) => assert!(b.volume_label == l),
        None => assert!(b.volume_label == *b"NO NAME    "),
    }
    if let Some(bpc) = opts.bytes_per_cluster {
        assert!(b.bytes_per_sector as u64 * b.sectors_per_cluster as u64 == bpc as u64);
    }
    if !g.fat32 {
        assert!(b.root_entries == opts.max_root_dir_entries);
    }
    assert!(b.reserved_1 == 0 && b.extended_flags == 0 && b.hidden_sectors == 0);
    assert!(boot.boot_sig == [0x55, 0xAA]);
}

/// wf_bpb but with the sector-size upper limit left to the caller (format_volume runs validate itself).
fn wf_bpb_fmt(b: &BiosParameterBlock) -> bool {
    wf_bpb(b)
}

// @obl props=C06,C20 tier=quick fns=format_boot_sector,format_bpb,determine_fs_layout,try_fs_layout,determine_sectors_per_fat,determine_bytes_per_cluster,determine_root_dir_sectors,estimate_fat_type
// @desc default options: for EVERY total_sectors in [42, 2^32-1] format_boot_sector is Ok, validate(true) accepts it and the result is valid_fresh (width from cluster count, FAT addresses clusters+2, regions fit, FAT32 fsinfo=1/backup=6/root=2, fields copied); for total_sectors < 42 the result is Err(InvalidInput); never panics
#[kani::proof]
fn fmt_default_all_sizes() {
    let total: u32 = kani::any();
    let opts = FormatVolumeOptions::new();
    let r = format_boot_sector::<()>(&opts, total);
    if total >= 42 {
        assert!(r.is_ok());
    }
    match r {
        Ok((boot, ft)) => {
            assert!(boot.validate::<()>(true).is_ok());
            check_fresh(&opts, total, &boot, ft);
            kani::cover!(ft == FatType::Fat12);
            kani::cover!(ft == FatType::Fat16);
            kani::cover!(ft == FatType::Fat32 && total == u32::MAX);
        }
        Err(e) => {
            assert!(matches!(e, Error::InvalidInput));
            assert!(total < 42);
        }
    }
    kani::cover!(total < 42);
}

pub(crate) fn fmt_cell(bps: u16, bpc: Option<u32>, ft: Option<FatType>, fats: u8) {
    let total: u32 = kani::any();
    let mut opts = FormatVolumeOptions::new();
    opts.bytes_per_sector = bps;
    opts.bytes_per_cluster = bpc;
    opts.fat_type = ft;
    opts.max_root_dir_entries = kani::any();
    opts.fats = fats;
    opts.media = kani::any();
    opts.volume_id = kani::any();
    opts.sectors_per_track = kani::any();
    opts.heads = kani::any();
    if kani::any() {
        opts.volume_label = Some(kani::any());
    }
    if kani::any() {
        opts.drive_num = Some(kani::any());
    }
    let r = format_boot_sector::<()>(&opts, total);
    match r {
        Ok((boot, t)) => {
            // format_volume turns a validate() failure into InvalidInput (e.g. sector size above 4096,
            // zero root entries), so validity is required of what validate accepts.
            let v = boot.validate::<()>(true);
            match v {
                Ok(()) => check_fresh(&opts, total, &boot, t),
                Err(e) => assert!(matches!(e, Error::CorruptedFileSystem)),
            }
        }
        Err(e) => {
            assert!(matches!(e, Error::InvalidInput));
        }
    }
    kani::cover!(true);
}
