// Shared harness helpers (appended to the scratch copy's lib.rs as `crate::verif_common`).
// Nothing here is part of the code under proof; these are the *environments* the contracts quantify over.
#![allow(dead_code, unused_imports)]
use crate::error::IoError;
use crate::io::{IoBase, Read, Seek, SeekFrom, Write};

/// A fixed-size in-memory stream with arbitrary (symbolic) initial content: used for the codecs
/// ("for all N-byte blocks ..."). Generic in the error type because some decoders want `Error<E>` streams.
pub(crate) struct MemDevG<const N: usize, E> {
    pub data: [u8; N],
    pub pos: usize,
    pub writes: usize,
    pub flushes: usize,
    ph: core::marker::PhantomData<E>,
}

pub(crate) type MemDev<const N: usize> = MemDevG<N, ()>;
pub(crate) type MemDevE<const N: usize> = MemDevG<N, crate::error::Error<()>>;

impl<const N: usize, E> MemDevG<N, E> {
    pub fn any() -> Self {
        Self { data: kani::any(), pos: 0, writes: 0, flushes: 0, ph: core::marker::PhantomData }
    }
    pub fn zeroed() -> Self {
        Self { data: [0u8; N], pos: 0, writes: 0, flushes: 0, ph: core::marker::PhantomData }
    }
    pub fn from(data: [u8; N]) -> Self {
        Self { data, pos: 0, writes: 0, flushes: 0, ph: core::marker::PhantomData }
    }
}

impl<const N: usize, E: IoError> IoBase for MemDevG<N, E> {
    type Error = E;
}

impl<const N: usize, E: IoError> Read for MemDevG<N, E> {
    // The whole request is always served (the stream is assumed long enough: harnesses size N to what the
    // code under proof consumes and assert the final position, so the assumption cannot hide anything).
    // This keeps the returned count concrete: no loop bound ever depends on a symbolic position.
    fn read(&mut self, buf: &mut [u8]) -> Result<usize, E> {
        let n = buf.len();
        kani::assume(self.pos + n <= N);
        let mut i = 0;
        while i < buf.len() {
            buf[i] = self.data[self.pos + i];
            i += 1;
        }
        self.pos += n;
        Ok(n)
    }
}

impl<const N: usize, E: IoError> Write for MemDevG<N, E> {
    fn write(&mut self, buf: &[u8]) -> Result<usize, E> {
        let n = buf.len();
        kani::assume(self.pos + n <= N);
        let mut i = 0;
        while i < buf.len() {
            self.data[self.pos + i] = buf[i];
            i += 1;
        }
        self.pos += n;
        self.writes += 1;
        Ok(n)
    }
    fn flush(&mut self) -> Result<(), E> {
        self.flushes += 1;
        Ok(())
    }
}

impl<const N: usize, E: IoError> Seek for MemDevG<N, E> {
    fn seek(&mut self, pos: SeekFrom) -> Result<u64, E> {
        let np: i128 = match pos {
            SeekFrom::Start(x) => x as i128,
            SeekFrom::Current(x) => self.pos as i128 + x as i128,
            SeekFrom::End(x) => N as i128 + x as i128,
        };
        kani::assume(np >= 0 && np <= N as i128);
        self.pos = np as usize;
        Ok(np as u64)
    }
}

pub(crate) fn le16(b: &[u8], o: usize) -> u16 {
    (b[o] as u16) | ((b[o + 1] as u16) << 8)
}

pub(crate) fn le32(b: &[u8], o: usize) -> u32 {
    (b[o] as u32) | ((b[o + 1] as u32) << 8) | ((b[o + 2] as u32) << 16) | ((b[o + 3] as u32) << 24)
}

/// Error type of the symbolic devices: a tag so that "the storage's error" can be recognised.
#[derive(Debug, Clone, Copy, PartialEq, Eq)]
pub(crate) struct DevErr {
    pub tag: u8,
    pub interrupted: bool,
}

pub(crate) const EOF_TAG: u8 = 0xEE;
pub(crate) const WZ_TAG: u8 = 0xDD;

impl IoError for DevErr {
    fn is_interrupted(&self) -> bool {
        self.interrupted
    }
    fn new_unexpected_eof_error() -> Self {
        DevErr { tag: EOF_TAG, interrupted: false }
    }
    fn new_write_zero_error() -> Self {
        DevErr { tag: WZ_TAG, interrupted: false }
    }
}

pub(crate) const LOG_N: usize = 24;

#[derive(Clone, Copy, PartialEq, Eq, Debug)]
pub(crate) enum Op {
    None,
    Seek(u64),
    Read(u64, usize),
    Write(u64, usize),
    Flush,
}

/// Nondeterministic device: every byte read is `kani::any()` (so the proof covers every device
/// content), every call is logged, and - in fault mode - every call may fail with a symbolic tag.
/// Writes are not stored: obligations about writes are stated over the log.
pub(crate) struct NdDev {
    pub pos: u64,
    pub log: [Op; LOG_N],
    pub nlog: usize,
    pub overflow: bool,
    pub faults: bool,
    pub fault_fired: bool,
    pub first_tag: u8,
    pub forbid_write: bool,
    pub short_io: bool,
    pub nwrites: usize,
    pub nflush: usize,
    pub last_write_byte: u8,
    pub all_written_zero: bool,
    /// the (up to 4) bytes returned by the most recent read call, and the total number of device calls
    pub last_read: [u8; 4],
    pub ncalls: usize,
    /// device-call budget (0 = none): exceeding it is reported as non-termination
    pub budget: usize,
    /// "table mode": from the n-th read call on every byte returned is 0xFF (an end-of-chain entry in every
    /// FAT width), so that chains revealed by the device are finite (0 = off)
    pub eoc_after: usize,
    pub nreads: usize,
    /// large-buffer mode: reads of more than 4 bytes do not touch the buffer (its content is irrelevant to
    /// address/length contracts) and may be short by any amount, so buffer lengths can be fully symbolic
    pub nofill: bool,
    /// smallest request that is not filled in nofill mode
    pub nofill_min: usize,
    /// predicate assumed of every small (<= 4 byte) read: (position, bytes, length) -> allowed.
    /// Used to state "cluster pointers on the volume are valid" as an assumption on device content.
    pub small_read_ok: Option<fn(u64, [u8; 4], usize) -> bool>,
    /// `last_read` is recorded only for reads starting in [track_lo, track_hi) (default: everywhere)
    pub track_lo: u64,
    pub track_hi: u64,
    /// single-fault mode: the device call with this (concrete) index fails (usize::MAX = none)
    pub fault_at: usize,
    /// call logging can be switched off (harnesses that only look at results: symbolic log indices are costly)
    pub log_on: bool,
}

impl NdDev {
    pub fn new() -> Self {
        NdDev {
            pos: 0,
            log: [Op::None; LOG_N],
            nlog: 0,
            overflow: false,
            faults: false,
            fault_fired: false,
            first_tag: 0,
            forbid_write: false,
            short_io: false,
            nwrites: 0,
            nflush: 0,
            last_write_byte: 0,
            all_written_zero: true,
            last_read: [0; 4],
            ncalls: 0,
            budget: 0,
            eoc_after: 0,
            nreads: 0,
            nofill: false,
            nofill_min: 5,
            small_read_ok: None,
            track_lo: 0,
            track_hi: u64::MAX,
            fault_at: usize::MAX,
            log_on: true,
        }
    }
    pub fn faulty() -> Self {
        let mut d = Self::new();
        d.faults = true;
        d
    }
    /// exactly the k-th device call (0-based) fails; k concrete keeps symbolic execution cheap
    pub fn fault_at(k: usize) -> Self {
        let mut d = Self::new();
        d.fault_at = k;
        d.log_on = false;
        d
    }
    pub fn read_only() -> Self {
        let mut d = Self::new();
        d.forbid_write = true;
        d
    }
    fn push(&mut self, op: Op) {
        if !self.log_on {
            return;
        }
        if self.nlog < LOG_N {
            self.log[self.nlog] = op;
            self.nlog += 1;
        } else {
            self.overflow = true;
        }
    }
    fn maybe_fault(&mut self) -> Result<(), DevErr> {
        self.ncalls += 1;
        if self.budget > 0 {
            assert!(self.ncalls <= self.budget, "device-call budget exceeded: the operation does not terminate");
        }
        if self.ncalls - 1 == self.fault_at || (self.faults && kani::any()) {
            let tag: u8 = kani::any();
            kani::assume(tag != EOF_TAG && tag != WZ_TAG);
            if !self.fault_fired {
                self.fault_fired = true;
                self.first_tag = tag;
            }
            return Err(DevErr { tag, interrupted: false });
        }
        Ok(())
    }
    pub fn writes(&self) -> usize {
        self.nwrites
    }
    /// i-th logged write
    pub fn nth_write(&self, n: usize) -> Option<(u64, usize)> {
        let mut k = 0;
        let mut i = 0;
        while i < LOG_N {
            if let Op::Write(p, l) = self.log[i] {
                if k == n {
                    return Some((p, l));
                }
                k += 1;
            }
            i += 1;
        }
        None
    }
    pub fn nth_read(&self, n: usize) -> Option<(u64, usize)> {
        let mut k = 0;
        let mut i = 0;
        while i < LOG_N {
            if let Op::Read(p, l) = self.log[i] {
                if k == n {
                    return Some((p, l));
                }
                k += 1;
            }
            i += 1;
        }
        None
    }
    pub fn last_op(&self) -> Op {
        if self.nlog == 0 {
            Op::None
        } else {
            self.log[self.nlog - 1]
        }
    }
}

impl IoBase for NdDev {
    type Error = DevErr;
}

impl Read for NdDev {
    fn read(&mut self, buf: &mut [u8]) -> Result<usize, DevErr> {
        self.maybe_fault()?;
        let mut n = buf.len();
        if self.nofill && n >= self.nofill_min {
            let k: usize = if self.short_io { kani::any() } else { n };
            kani::assume(k <= n);
            self.push(Op::Read(self.pos, n));
            self.pos += k as u64;
            return Ok(k);
        }
        if self.short_io && n > 1 && kani::any() {
            n = 1;
        }
        self.nreads += 1;
        let all_ff = self.eoc_after > 0 && self.nreads >= self.eoc_after;
        let track = self.pos >= self.track_lo && self.pos < self.track_hi;
        let mut small = [0u8; 4];
        let mut i = 0;
        while i < n {
            buf[i] = if all_ff { 0xFF } else { kani::any() };
            if i < 4 {
                small[i] = buf[i];
            }
            i += 1;
        }
        if track {
            self.last_read = small;
        }
        if n <= 4 {
            if let Some(f) = self.small_read_ok {
                kani::assume(f(self.pos, small, n));
            }
        }
        self.push(Op::Read(self.pos, n));
        self.pos += n as u64;
        Ok(n)
    }
}

impl Write for NdDev {
    fn write(&mut self, buf: &[u8]) -> Result<usize, DevErr> {
        assert!(!self.forbid_write, "device write issued by a non-mutating call");
        self.maybe_fault()?;
        let mut n = buf.len();
        if self.short_io && n > 1 && kani::any() {
            n = 1;
        }
        if self.nofill && n >= self.nofill_min {
            let k: usize = if self.short_io { kani::any() } else { n };
            kani::assume(k <= n);
            self.push(Op::Write(self.pos, n));
            self.nwrites += 1;
            self.pos += k as u64;
            return Ok(k);
        }
        if n > 0 {
            self.last_write_byte = buf[0];
            // zero-ness of everything written is tracked through ONE symbolic index per call
            // (sound for "all bytes written are zero": the index is universally quantified)
            let j: usize = kani::any();
            kani::assume(j < n);
            if buf[j] != 0 {
                self.all_written_zero = false;
            }
        }
        self.push(Op::Write(self.pos, n));
        self.nwrites += 1;
        self.pos += n as u64;
        Ok(n)
    }
    fn flush(&mut self) -> Result<(), DevErr> {
        self.maybe_fault()?;
        self.push(Op::Flush);
        self.nflush += 1;
        Ok(())
    }
}

impl Seek for NdDev {
    fn seek(&mut self, pos: SeekFrom) -> Result<u64, DevErr> {
        self.maybe_fault()?;
        let np: i128 = match pos {
            SeekFrom::Start(x) => x as i128,
            SeekFrom::Current(x) => self.pos as i128 + x as i128,
            SeekFrom::End(x) => (1i128 << 62) + x as i128,
        };
        assert!(np >= 0, "seek before start of device");
        self.pos = np as u64;
        self.push(Op::Seek(self.pos));
        Ok(self.pos)
    }
}

use crate::time::{Date, DateTime, Time, TimeProvider};

/// Time provider returning one symbolic but valid DateTime (chosen once per harness).
#[derive(Debug, Clone, Copy)]
pub(crate) struct SymTime {
    pub dt: DateTime,
}

pub(crate) fn any_valid_date() -> Date {
    let (y, m, d): (u16, u16, u16) = (kani::any(), kani::any(), kani::any());
    kani::assume(y >= 1980 && y <= 2107 && m >= 1 && m <= 12 && d >= 1 && d <= 31);
    Date::new(y, m, d)
}

pub(crate) fn any_valid_time() -> Time {
    let (h, mi, s, ms): (u16, u16, u16, u16) = (kani::any(), kani::any(), kani::any(), kani::any());
    kani::assume(h <= 23 && mi <= 59 && s <= 59 && ms <= 999);
    Time::new(h, mi, s, ms)
}

impl SymTime {
    /// a fixed valid time with an odd second and non-round milliseconds (division-free for the solver)
    pub fn fixed() -> Self {
        SymTime { dt: DateTime::new(Date::new(2021, 7, 9), Time::new(13, 47, 33, 987)) }
    }
    pub fn any() -> Self {
        SymTime { dt: DateTime::new(any_valid_date(), any_valid_time()) }
    }
}

impl TimeProvider for SymTime {
    fn get_current_date(&self) -> Date {
        self.dt.date
    }
    fn get_current_date_time(&self) -> DateTime {
        self.dt
    }
}


/// Calls `$f(k)` with a CONCRETE k on its own path for every k in 0..32 (k = 32 stands for "no fault"):
/// exhaustive single-fault enumeration in which every path has a concrete failing call index.
#[macro_export]
macro_rules! for_each_fault_index {
    ($f:expr) => {{
        let sel: u8 = kani::any();
        match sel {
            0 => $f(0), 1 => $f(1), 2 => $f(2), 3 => $f(3), 4 => $f(4), 5 => $f(5), 6 => $f(6), 7 => $f(7),
            8 => $f(8), 9 => $f(9), 10 => $f(10), 11 => $f(11), 12 => $f(12), 13 => $f(13), 14 => $f(14), 15 => $f(15),
            16 => $f(16), 17 => $f(17), 18 => $f(18), 19 => $f(19), 20 => $f(20), 21 => $f(21), 22 => $f(22), 23 => $f(23),
            24 => $f(24), 25 => $f(25), 26 => $f(26), 27 => $f(27), 28 => $f(28), 29 => $f(29), 30 => $f(30), 31 => $f(31),
            _ => $f(usize::MAX),
        }
    }};
}


/// In-memory table with symbolic content whose k-th device call (k concrete) fails with a symbolic tag:
/// the environment of the exhaustive single-fault obligations on the table code.
pub(crate) struct FaultMem<const N: usize> {
    pub data: [u8; N],
    pub pos: usize,
    pub ncalls: usize,
    pub fault_at: usize,
    pub fault_fired: bool,
    pub first_tag: u8,
    pub budget: usize,
}

impl<const N: usize> FaultMem<N> {
    pub fn any(fault_at: usize, budget: usize) -> Self {
        FaultMem { data: kani::any(), pos: 0, ncalls: 0, fault_at, fault_fired: false, first_tag: 0, budget }
    }
    fn call(&mut self) -> Result<(), DevErr> {
        self.ncalls += 1;
        assert!(self.ncalls <= self.budget, "device-call budget exceeded: the operation does not terminate");
        if self.ncalls - 1 == self.fault_at {
            let tag: u8 = kani::any();
            kani::assume(tag != EOF_TAG && tag != WZ_TAG);
            self.fault_fired = true;
            self.first_tag = tag;
            return Err(DevErr { tag, interrupted: false });
        }
        Ok(())
    }
}

impl<const N: usize> IoBase for FaultMem<N> {
    type Error = DevErr;
}

impl<const N: usize> Read for FaultMem<N> {
    fn read(&mut self, buf: &mut [u8]) -> Result<usize, DevErr> {
        self.call()?;
        let n = buf.len();
        kani::assume(self.pos + n <= N);
        let mut i = 0;
        while i < buf.len() {
            buf[i] = self.data[self.pos + i];
            i += 1;
        }
        self.pos += n;
        Ok(n)
    }
}

impl<const N: usize> Write for FaultMem<N> {
    fn write(&mut self, buf: &[u8]) -> Result<usize, DevErr> {
        self.call()?;
        let n = buf.len();
        kani::assume(self.pos + n <= N);
        let mut i = 0;
        while i < buf.len() {
            self.data[self.pos + i] = buf[i];
            i += 1;
        }
        self.pos += n;
        Ok(n)
    }
    fn flush(&mut self) -> Result<(), DevErr> {
        self.call()
    }
}

impl<const N: usize> Seek for FaultMem<N> {
    fn seek(&mut self, pos: SeekFrom) -> Result<u64, DevErr> {
        self.call()?;
        let np: i128 = match pos {
            SeekFrom::Start(x) => x as i128,
            SeekFrom::Current(x) => self.pos as i128 + x as i128,
            SeekFrom::End(x) => N as i128 + x as i128,
        };
        kani::assume(np >= 0 && np <= N as i128);
        self.pos = np as usize;
        Ok(np as u64)
    }
}
