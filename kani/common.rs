// Shared harness helpers (appended to the scratch copy's lib.rs as `crate::verif_common`).
// Nothing here is part of the code under proof; these are the *environments* the contracts quantify over.
#![allow(dead_code, unused_imports)]
use crate::error::IoError;
use crate::io::{IoBase, Read, Seek, SeekFrom, Write};

/// A fixed-size in-memory stream with arbitrary (symbolic) initial content: used for the codecs
/// ("for all N-byte blocks ..."). Reads/writes may be short at the end like a real device.
pub(crate) struct MemDev<const N: usize> {
    pub data: [u8; N],
    pub pos: usize,
    pub writes: usize,
    pub flushes: usize,
}

impl<const N: usize> MemDev<N> {
    pub fn any() -> Self {
        Self { data: kani::any(), pos: 0, writes: 0, flushes: 0 }
    }
    pub fn zeroed() -> Self {
        Self { data: [0u8; N], pos: 0, writes: 0, flushes: 0 }
    }
    pub fn from(data: [u8; N]) -> Self {
        Self { data, pos: 0, writes: 0, flushes: 0 }
    }
}

impl<const N: usize> IoBase for MemDev<N> {
    type Error = ();
}

impl<const N: usize> Read for MemDev<N> {
    // The whole request is always served (the stream is assumed long enough: harnesses size N to what the
    // code under proof consumes and assert the final position, so the assumption cannot hide anything).
    // This keeps the returned count concrete: no loop bound ever depends on a symbolic position.
    fn read(&mut self, buf: &mut [u8]) -> Result<usize, ()> {
        let n = buf.len();
        kani::assume(self.pos + n <= N);
        let mut i = 0;
        while i < buf.len() {
            buf[i] = self.data[self.pos + i];
            i += 1;
        }
        self.pos += n;
        Ok(n)
    }
}

impl<const N: usize> Write for MemDev<N> {
    fn write(&mut self, buf: &[u8]) -> Result<usize, ()> {
        let n = buf.len();
        kani::assume(self.pos + n <= N);
        let mut i = 0;
        while i < buf.len() {
            self.data[self.pos + i] = buf[i];
            i += 1;
        }
        self.pos += n;
        self.writes += 1;
        Ok(n)
    }
    fn flush(&mut self) -> Result<(), ()> {
        self.flushes += 1;
        Ok(())
    }
}

impl<const N: usize> Seek for MemDev<N> {
    fn seek(&mut self, pos: SeekFrom) -> Result<u64, ()> {
        let np: i128 = match pos {
            SeekFrom::Start(x) => x as i128,
            SeekFrom::Current(x) => self.pos as i128 + x as i128,
            SeekFrom::End(x) => N as i128 + x as i128,
        };
        if np < 0 || np > N as i128 {
            return Err(());
        }
        self.pos = np as usize;
        Ok(np as u64)
    }
}

pub(crate) fn le16(b: &[u8], o: usize) -> u16 {
    (b[o] as u16) | ((b[o + 1] as u16) << 8)
}

pub(crate) fn le32(b: &[u8], o: usize) -> u32 {
    (b[o] as u32) | ((b[o + 1] as u32) << 8) | ((b[o + 2] as u32) << 16) | ((b[o + 3] as u32) << 24)
}

/// Error type of the symbolic devices: a tag so that "the storage's error" can be recognised.
#[derive(Debug, Clone, Copy, PartialEq, Eq)]
pub(crate) struct DevErr {
    pub tag: u8,
    pub interrupted: bool,
}

pub(crate) const EOF_TAG: u8 = 0xEE;
pub(crate) const WZ_TAG: u8 = 0xDD;

impl IoError for DevErr {
    fn is_interrupted(&self) -> bool {
        self.interrupted
    }
    fn new_unexpected_eof_error() -> Self {
        DevErr { tag: EOF_TAG, interrupted: false }
    }
    fn new_write_zero_error() -> Self {
        DevErr { tag: WZ_TAG, interrupted: false }
    }
}

pub(crate) const LOG_N: usize = 12;

#[derive(Clone, Copy, PartialEq, Eq, Debug)]
pub(crate) enum Op {
    None,
    Seek(u64),
    Read(u64, usize),
    Write(u64, usize),
    Flush,
}

/// Nondeterministic device: every byte read is `kani::any()` (so the proof covers every device
/// content), every call is logged, and - in fault mode - every call may fail with a symbolic tag.
/// Writes are not stored: obligations about writes are stated over the log.
pub(crate) struct NdDev {
    pub pos: u64,
    pub log: [Op; LOG_N],
    pub nlog: usize,
    pub overflow: bool,
    pub faults: bool,
    pub fault_fired: bool,
    pub first_tag: u8,
    pub forbid_write: bool,
    pub short_io: bool,
    pub nwrites: usize,
    pub nflush: usize,
    pub last_write_byte: u8,
    pub all_written_zero: bool,
}

impl NdDev {
    pub fn new() -> Self {
        NdDev {
            pos: 0,
            log: [Op::None; LOG_N],
            nlog: 0,
            overflow: false,
            faults: false,
            fault_fired: false,
            first_tag: 0,
            forbid_write: false,
            short_io: false,
            nwrites: 0,
            nflush: 0,
            last_write_byte: 0,
            all_written_zero: true,
        }
    }
    pub fn faulty() -> Self {
        let mut d = Self::new();
        d.faults = true;
        d
    }
    pub fn read_only() -> Self {
        let mut d = Self::new();
        d.forbid_write = true;
        d
    }
    fn push(&mut self, op: Op) {
        if self.nlog < LOG_N {
            self.log[self.nlog] = op;
            self.nlog += 1;
        } else {
            self.overflow = true;
        }
    }
    fn maybe_fault(&mut self) -> Result<(), DevErr> {
        if self.faults && kani::any() {
            let tag: u8 = kani::any();
            kani::assume(tag != EOF_TAG && tag != WZ_TAG);
            if !self.fault_fired {
                self.fault_fired = true;
                self.first_tag = tag;
            }
            return Err(DevErr { tag, interrupted: false });
        }
        Ok(())
    }
    pub fn writes(&self) -> usize {
        self.nwrites
    }
    /// i-th logged write
    pub fn nth_write(&self, n: usize) -> Option<(u64, usize)> {
        let mut k = 0;
        let mut i = 0;
        while i < LOG_N {
            if let Op::Write(p, l) = self.log[i] {
                if k == n {
                    return Some((p, l));
                }
                k += 1;
            }
            i += 1;
        }
        None
    }
    pub fn nth_read(&self, n: usize) -> Option<(u64, usize)> {
        let mut k = 0;
        let mut i = 0;
        while i < LOG_N {
            if let Op::Read(p, l) = self.log[i] {
                if k == n {
                    return Some((p, l));
                }
                k += 1;
            }
            i += 1;
        }
        None
    }
    pub fn last_op(&self) -> Op {
        if self.nlog == 0 {
            Op::None
        } else {
            self.log[self.nlog - 1]
        }
    }
}

impl IoBase for NdDev {
    type Error = DevErr;
}

impl Read for NdDev {
    fn read(&mut self, buf: &mut [u8]) -> Result<usize, DevErr> {
        self.maybe_fault()?;
        let mut n = buf.len();
        if self.short_io && n > 1 && kani::any() {
            n = 1;
        }
        let mut i = 0;
        while i < n {
            buf[i] = kani::any();
            i += 1;
        }
        self.push(Op::Read(self.pos, n));
        self.pos += n as u64;
        Ok(n)
    }
}

impl Write for NdDev {
    fn write(&mut self, buf: &[u8]) -> Result<usize, DevErr> {
        assert!(!self.forbid_write, "device write issued by a non-mutating call");
        self.maybe_fault()?;
        let mut n = buf.len();
        if self.short_io && n > 1 && kani::any() {
            n = 1;
        }
        if n > 0 {
            self.last_write_byte = buf[0];
            let mut i = 0;
            while i < n {
                if buf[i] != 0 {
                    self.all_written_zero = false;
                }
                i += 1;
            }
        }
        self.push(Op::Write(self.pos, n));
        self.nwrites += 1;
        self.pos += n as u64;
        Ok(n)
    }
    fn flush(&mut self) -> Result<(), DevErr> {
        self.maybe_fault()?;
        self.push(Op::Flush);
        self.nflush += 1;
        Ok(())
    }
}

impl Seek for NdDev {
    fn seek(&mut self, pos: SeekFrom) -> Result<u64, DevErr> {
        self.maybe_fault()?;
        let np: i128 = match pos {
            SeekFrom::Start(x) => x as i128,
            SeekFrom::Current(x) => self.pos as i128 + x as i128,
            SeekFrom::End(x) => (1i128 << 62) + x as i128,
        };
        assert!(np >= 0, "seek before start of device");
        self.pos = np as u64;
        self.push(Op::Seek(self.pos));
        Ok(self.pos)
    }
}
