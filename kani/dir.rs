// Kani obligations for src/dir.rs: name validation, 8.3 alias generation, long-name slot generation/assembly.
// @needs fs,boot_sector,dir_entry
#![allow(dead_code, unused_imports, unused_variables, unused_mut)]
use super::*;
use crate::verif_common::*;

// ---- C03 / C16: checksum that ties the long-name slots to the short entry ----

// @obl props=C03,C16,C17 tier=quick fns=lfn_checksum
// @desc forall 11-byte short names (2^88): lfn_checksum = the specification's rotate-right-and-add over the 11 bytes (sum = ((sum & 1) << 7) + (sum >> 1) + byte, modulo 256)
#[kani::proof]
#[kani::unwind(13)]
fn lfn_checksum_spec() {
    let name: [u8; 11] = kani::any();
    let mut sum: u8 = 0;
    let mut i = 0;
    while i < 11 {
        sum = (((sum & 1) << 7) as u8).wrapping_add(sum >> 1).wrapping_add(name[i]);
        i += 1;
    }
    assert!(lfn_checksum(&name) == sum);
    kani::cover!(sum == 0xA5);
}

// ---- C15: name validation ----

/// documented long-name character set (Microsoft FAT specification, long directory entries): letters, digits,
/// $ % ' - _ @ ~ ` ! ( ) { } ^ # &, plus . + , ; = [ ] and space, plus code points above 127 that fit one UTF-16 unit
fn allowed(c: char) -> bool {
    let u = c as u32;
    // (U+FFFF, a non-character, is the padding value of long-name slots and cannot be stored)
    (u >= 0x80 && u <= 0xFFFE)
        || c.is_ascii_alphanumeric()
        || matches!(c, '$' | '%' | '\'' | '-' | '_' | '@' | '~' | '`' | '!' | '(' | ')' | '{' | '}' | '^' | '#' | '&')
        || matches!(c, '.' | '+' | ',' | ';' | '=' | '[' | ']' | ' ')
}

// @obl props=C15 tier=quick fns=validate_long_name
// @desc for EVERY char c (all 0x110000-0x800 scalar values) as a one-character name: validate_long_name accepts it iff c is in the documented long-name character set; a rejected character yields UnsupportedFileNameCharacter; never panics
#[kani::proof]
#[kani::unwind(6)]
fn validate_char_class() {
    let c: char = kani::any();
    let mut buf = [0u8; 4];
    let s: &str = c.encode_utf8(&mut buf);
    let r = validate_long_name::<()>(s);
    if allowed(c) {
        assert!(r.is_ok());
    } else {
        assert!(matches!(r, Err(Error::UnsupportedFileNameCharacter)));
    }
    kani::cover!(c as u32 > 0xFFFF);
    kani::cover!(c == '\u{FFFF}');
    kani::cover!(c == '*');
}

fn ascii_str(buf: &[u8; 4], len: usize) -> &str {
    // all bytes < 0x80: valid UTF-8 by construction
    unsafe { core::str::from_utf8_unchecked(&buf[..len]) }
}

// @obl props=C15 tier=quick fns=validate_long_name
// @bound bounded: names of at most 4 ASCII characters, all symbolic (per-character acceptance for every char: validate_char_class; every length: validate_length_limits)
// @desc accepted iff non-empty and every character is in the documented set; empty -> InvalidFileNameLength; otherwise UnsupportedFileNameCharacter; only dots / only spaces are accepted by validation (they are legal long-name characters)
#[kani::proof]
#[kani::unwind(6)]
fn validate_bounded_ascii() {
    let buf: [u8; 4] = kani::any();
    let len: usize = kani::any();
    kani::assume(len <= 4);
    kani::assume(buf[0] < 0x80 && buf[1] < 0x80 && buf[2] < 0x80 && buf[3] < 0x80);
    let r = validate_long_name::<()>(ascii_str(&buf, len));
    let mut all = true;
    let mut i = 0;
    while i < 4 {
        if i < len && !allowed(buf[i] as char) {
            all = false;
        }
        i += 1;
    }
    if len == 0 {
        assert!(matches!(r, Err(Error::InvalidFileNameLength)));
    } else if all {
        assert!(r.is_ok());
    } else {
        assert!(matches!(r, Err(Error::UnsupportedFileNameCharacter)));
    }
    kani::cover!(len == 4 && all);
    kani::cover!(len == 2 && buf[0] == b'.' && buf[1] == b'.');
}

static LONG_A: [u8; 300] = [b'a'; 300];

fn length_case(len: usize) {
    let s = unsafe { core::str::from_utf8_unchecked(&LONG_A[..len]) };
    let r = validate_long_name::<()>(s);
    if len == 0 || len > 255 {
        assert!(matches!(r, Err(Error::InvalidFileNameLength)));
    } else {
        assert!(r.is_ok());
    }
}

// @obl props=C15 tier=quick fns=validate_long_name
// @bound bounded: byte lengths {0, 1, 2, 13, 254, 255, 256, 257, 300} (content 'a'...); the length test is a single comparison on the UTF-8 byte length before any character is looked at
// @desc InvalidFileNameLength iff the length is 0 or above 255, Ok otherwise - at and around both limits
#[kani::proof]
#[kani::unwind(258)]
fn validate_length_limits() {
    let sel: u8 = kani::any();
    match sel {
        0 => length_case(0),
        1 => length_case(1),
        2 => length_case(2),
        3 => length_case(13),
        4 => length_case(254),
        5 => length_case(255),
        6 => length_case(256),
        7 => length_case(257),
        _ => length_case(300),
    }
    kani::cover!(sel == 5);
    kani::cover!(sel == 6);
}

// ---- C16: 8.3 alias generation ----

fn legal(b: u8) -> bool {
    (b >= b'A' && b <= b'Z')
        || (b >= b'0' && b <= b'9')
        || matches!(b, b'!' | b'#' | b'$' | b'%' | b'&' | b'\'' | b'(' | b')' | b'-' | b'@' | b'^' | b'_' | b'`' | b'{' | b'}' | b'~')
}

/// legal characters followed by padding only (no leading or embedded space), within name[lo..hi]
fn legal_then_padding(name: &[u8; 11], lo: usize, hi: usize, nonempty: bool) -> bool {
    let mut seen_pad = false;
    let mut i = lo;
    while i < hi {
        if name[i] == b' ' {
            seen_pad = true;
        } else if seen_pad || !legal(name[i]) {
            return false;
        }
        i += 1;
    }
    !(nonempty && name[lo] == b' ')
}

pub(crate) fn inv_gen(g: &ShortNameGenerator) -> bool {
    if g.basename_len > 8 {
        return false;
    }
    let mut i = 0;
    while i < 8 {
        if i < g.basename_len {
            if !legal(g.short_name[i]) {
                return false;
            }
        } else if g.short_name[i] != b' ' {
            return false;
        }
        i += 1;
    }
    legal_then_padding(&g.short_name, 8, 11, false) && (g.basename_len != 0 || g.lossy_conv)
}

/// simple model of core's word-at-a-time memrchr (whose pointer-alignment loops are intractable for CBMC);
/// same contract: index of the last occurrence of x in text
pub(crate) fn simple_memrchr(x: u8, text: &[u8]) -> Option<usize> {
    let mut i = text.len();
    while i > 0 {
        i -= 1;
        if text[i] == x {
            return Some(i);
        }
    }
    None
}

pub(crate) fn any_gen() -> ShortNameGenerator {
    ShortNameGenerator {
        chksum: kani::any(),
        long_prefix_bitmap: kani::any(),
        prefix_chksum_bitmap: kani::any(),
        name_fits: kani::any(),
        lossy_conv: kani::any(),
        exact_match: kani::any(),
        basename_len: kani::any(),
        short_name: kani::any(),
    }
}

// @obl props=C16 tier=quick fns=ShortNameGenerator::copy_short_name_part
// @desc for EVERY char c: copy_short_name_part on the one-character string emits nothing (space, dot: lossy) or exactly one byte that is legal in a short name (upper case; anything else becomes '_' and sets lossy); reports fit = true; lossy iff the byte differs from c
#[kani::proof]
#[kani::unwind(6)]
fn copy_part_char() {
    let c: char = kani::any();
    let mut buf = [0u8; 4];
    let s: &str = c.encode_utf8(&mut buf);
    let mut dst = [b' '; 8];
    let (n, fits, lossy) = ShortNameGenerator::copy_short_name_part(&mut dst, s);
    assert!(fits);
    if c == ' ' || c == '.' {
        assert!(n == 0 && lossy && dst[0] == b' ');
    } else {
        assert!(n == 1 && legal(dst[0]) && dst[1] == b' ');
        // characters allowed in a short name are kept (upper-cased), everything else becomes '_' and is lossy
        let keep = c.is_ascii() && (c.is_ascii_alphanumeric() || legal(c as u8));
        assert!(lossy == !keep);
        assert!(dst[0] == if keep { (c as u8).to_ascii_uppercase() } else { b'_' });
    }
    kani::cover!(c == 'é');
    kani::cover!(c == '+');
}

// @obl props=C15,C16 tier=quick fns=ShortNameGenerator::new
// @desc ShortNameGenerator::new("") does not panic (creation/rename of an empty name must fail with the name-length error, not a slice-index panic) and yields the blank generator state
#[kani::proof]
#[kani::unwind(13)]
#[kani::stub(core::slice::memchr::memrchr, simple_memrchr)]
fn sfngen_new_empty() {
    let g = ShortNameGenerator::new("");
    // (the empty name is rejected by validate_long_name before any alias is used: only totality and the
    // shape of the state are required here, not the "empty base implies lossy" clause of inv_gen)
    assert!(g.basename_len == 0 && g.short_name == [b' '; 11] && !g.exact_match);
    kani::cover!(true);
}

// @obl props=C15,C16 tier=quick timeout=900 fns=ShortNameGenerator::new,ShortNameGenerator::copy_short_name_part,ShortNameGenerator::checksum
// @desc for EVERY single-character name (all scalar values: multi-byte first characters included): ShortNameGenerator::new does not panic and establishes inv_gen (base name = legal characters then padding, extension likewise, empty base name implies lossy)
#[kani::proof]
#[kani::unwind(13)]
#[kani::stub(core::slice::memchr::memrchr, simple_memrchr)]
fn sfngen_new_one_char() {
    let c: char = kani::any();
    let mut buf = [0u8; 4];
    let s: &str = c.encode_utf8(&mut buf);
    let g = ShortNameGenerator::new(s);
    assert!(inv_gen(&g));
    assert!(!g.exact_match && g.long_prefix_bitmap == 0 && g.prefix_chksum_bitmap == 0);
    kani::cover!(c as u32 > 0x7FF);
    kani::cover!(g.basename_len == 0);
}

// @obl props=C15,C16 tier=quick fns=ShortNameGenerator::new,ShortNameGenerator::copy_short_name_part timeout=900
// @bound bounded: names of 2 or 3 ASCII characters, all symbolic (dots and spaces anywhere)
// @desc ShortNameGenerator::new never panics and establishes inv_gen; the extension is what follows the LAST dot (a leading dot is not an extension separator)
#[kani::proof]
#[kani::unwind(13)]
#[kani::stub(core::slice::memchr::memrchr, simple_memrchr)]
fn sfngen_new_ascii3() {
    let buf: [u8; 4] = kani::any();
    kani::assume(buf[0] < 0x80 && buf[1] < 0x80 && buf[2] < 0x80);
    let len: usize = kani::any();
    kani::assume(len == 2 || len == 3);
    let g = ShortNameGenerator::new(ascii_str(&buf, len));
    assert!(inv_gen(&g));
    kani::cover!(buf[0] == b'.' && len == 3);
    kani::cover!(buf[1] == b'.' && g.short_name[8] != b' ');
}

// @obl props=C16 tier=quick fns=ShortNameGenerator::generate,ShortNameGenerator::build_prefixed_name,ShortNameGenerator::u16_to_hex
// @desc for EVERY generator state satisfying inv_gen (all checksums, bitmaps, flags): generate() is Err(AlreadyExists) or an 11-byte alias whose base name is legal short-name characters followed by padding (upper case, no leading or embedded space, no dot, never 0x00/0x05/0xE5 first) and whose extension is the generator's; the numeric tail is ~1..~9 placed after at most 6 (or 2+4 hex) characters
#[kani::proof]
#[kani::unwind(12)]
fn generate_legal() {
    let g = any_gen();
    kani::assume(inv_gen(&g));
    match g.generate() {
        Ok(name) => {
            assert!(legal_then_padding(&name, 0, 8, true));
            assert!(legal_then_padding(&name, 8, 11, false));
            assert!(name[8] == g.short_name[8] && name[9] == g.short_name[9] && name[10] == g.short_name[10]);
            if name != g.short_name || g.lossy_conv || !g.name_fits || g.exact_match {
                // a generated (non as-is) alias carries ~digit
                let mut tilde = 8;
                let mut i = 0;
                while i < 7 {
                    if name[i] == b'~' && name[i + 1] >= b'1' && name[i + 1] <= b'9' {
                        tilde = i;
                    }
                    i += 1;
                }
                assert!(tilde < 7);
            }
        }
        Err(e) => {
            assert!(matches!(e, Error::AlreadyExists));
            assert!(g.long_prefix_bitmap & 0x1E == 0x1E && g.prefix_chksum_bitmap & 0x3FE == 0x3FE);
        }
    }
    kani::cover!(g.generate().is_err());
    kani::cover!(matches!(g.generate(), Ok(n) if n[6] == b'~'));
}

// @obl props=C16 tier=quick fns=ShortNameGenerator::next_iteration,ShortNameGenerator::u16_to_hex
// @desc for every state: next_iteration resets both collision bitmaps, increments the checksum modulo 2^16 and keeps everything else (so inv_gen and exact_match survive); u16_to_hex(x) is the 4 upper-case hex digits of x for all 2^16 values
#[kani::proof]
#[kani::unwind(13)]
fn next_iteration_and_hex() {
    let g0 = any_gen();
    let mut g = g0.clone();
    g.next_iteration();
    assert!(g.long_prefix_bitmap == 0 && g.prefix_chksum_bitmap == 0);
    assert!(g.chksum == g0.chksum.wrapping_add(1));
    assert!(g.short_name == g0.short_name && g.basename_len == g0.basename_len);
    assert!(g.name_fits == g0.name_fits && g.lossy_conv == g0.lossy_conv && g.exact_match == g0.exact_match);
    let x: u16 = kani::any();
    let h = ShortNameGenerator::u16_to_hex(x);
    let mut i = 0;
    while i < 4 {
        let d = ((x >> (12 - 4 * i)) & 0xF) as u8;
        let want = if d < 10 { b'0' + d } else { b'A' + d - 10 };
        assert!(h[i as usize] == want);
        i += 1;
    }
    kani::cover!(x == 0xBEEF);
}

/// every candidate of g whose 11 bytes equal e is blocked
fn marked(g: &ShortNameGenerator, e: &[u8; 11]) -> bool {
    if g.short_name == *e && !g.exact_match {
        return false;
    }
    let mut i = 1u32;
    while i < 5 {
        if g.build_prefixed_name(i, false) == *e && g.long_prefix_bitmap & (1 << i) == 0 {
            return false;
        }
        i += 1;
    }
    let mut i = 1u32;
    while i < 10 {
        if g.build_prefixed_name(i, true) == *e && g.prefix_chksum_bitmap & (1 << i) == 0 {
            return false;
        }
        i += 1;
    }
    true
}

// @obl props=C16 tier=thorough heavy=1 timeout=3000 fns=ShortNameGenerator::add_existing,ShortNameGenerator::check_for_long_prefix_collision,ShortNameGenerator::check_for_short_prefix_collision,ShortNameGenerator::generate
// @desc uniqueness step, for EVERY generator state satisfying inv_gen and EVERY existing 11-byte short name e: after add_existing(e), generate() never returns e (the alias differs from every entry the directory scan has fed in); add_existing only ever adds to the three collision records
#[kani::proof]
#[kani::unwind(12)]
fn add_existing_then_generate_differs() {
    let mut g = any_gen();
    kani::assume(inv_gen(&g));
    let g0 = g.clone();
    let e: [u8; 11] = kani::any();
    g.add_existing(&e);
    assert!(g.long_prefix_bitmap & g0.long_prefix_bitmap == g0.long_prefix_bitmap);
    assert!(g.prefix_chksum_bitmap & g0.prefix_chksum_bitmap == g0.prefix_chksum_bitmap);
    assert!(!g0.exact_match || g.exact_match);
    assert!(g.short_name == g0.short_name && g.chksum == g0.chksum && g.basename_len == g0.basename_len);
    if let Ok(n) = g.generate() {
        assert!(n != e);
    }
    kani::cover!(g.exact_match && !g0.exact_match);
    kani::cover!(g.prefix_chksum_bitmap != g0.prefix_chksum_bitmap);
}

// ---- C03 / C16: long-name slot generation, one step from any position of the run ----

const MAXN: usize = 255;

fn lfn_run(len: usize) {
    let name: [u16; MAXN] = kani::any();
    let chk: u8 = kani::any();
    let n = (len + 12) / 13;
    let mut g = LfnEntriesGenerator::new(&name[..len], chk);
    assert!(g.num == n && g.index == 0 && !g.ended && g.len() == n);
    let k: usize = kani::any();
    kani::assume(k < 13);
    let mut i = 0;
    while i < n {
        let e = g.next();
        assert!(e.is_some());
        let e = e.unwrap();
        let idx = n - i;
        assert!(e.order() == (idx as u8) | if i == 0 { 0x40 } else { 0 });
        assert!(e.checksum() == chk);
        let mut part = [0u16; 13];
        e.copy_name_to_slice(&mut part);
        let base = 13 * (idx - 1);
        let want = if base + k < len { name[base + k] } else if base + k == len { 0 } else { 0xFFFF };
        assert!(part[k] == want);
        // serialized form: attribute 0x0F, type 0, first-cluster 0
        let mut out = MemDev::<32>::zeroed();
        assert!(e.serialize(&mut out).is_ok());
        assert!(out.data[0] == e.order() && out.data[11] == 0x0F && out.data[12] == 0 && out.data[13] == chk);
        assert!(out.data[26] == 0 && out.data[27] == 0);
        assert!(g.len() == n - i - 1);
        i += 1;
    }
    assert!(g.next().is_none() && g.ended);
    assert!(g.next().is_none());
}

// @obl props=C03,C04,C15,C16,C19 tier=quick fns=LfnEntriesGenerator::next,LfnEntriesGenerator::new,DirLfnEntryData::new,DirLfnEntryData::copy_name_from_slice feat=fa,fn feat_quick=fa
// @bound bounded: name lengths {1, 12, 13, 14, 26, 27} UTF-16 units, all contents and checksums symbolic (CBMC's model of slice copies with a symbolic length proved unreliable here - a counterexample for L = 247 did not reproduce natively - so lengths are concrete; long names: lfn_generator_run_long)
// @desc the whole run generated for a name: n = ceil(L/13) slots, orders n|0x40, n-1, ..., 1, every slot carries the checksum, attribute 0x0F, type 0, cluster 0, the name's units in place, ONE 0x0000 terminator iff 13 does not divide L, then 0xFFFF padding; the generator then ends
#[kani::proof]
#[kani::unwind(16)]
fn lfn_generator_run_short() {
    let sel: u8 = kani::any();
    match sel {
        0 => lfn_run(1),
        1 => lfn_run(12),
        2 => lfn_run(13),
        3 => lfn_run(14),
        4 => lfn_run(26),
        _ => lfn_run(27),
    }
    kani::cover!(sel == 3);
}

// @obl props=C03,C15,C16,C19 tier=thorough timeout=3000 fns=LfnEntriesGenerator::next,LfnEntriesGenerator::new feat=fa,fn
// @bound bounded: name lengths {247, 254, 255} UTF-16 units (19 and 20 slots), all contents symbolic
// @desc contract of lfn_generator_run_short for the longest names: 255 units give 20 slots with orders 0x54, 19, ..., 1
#[kani::proof]
#[kani::unwind(22)]
fn lfn_generator_run_long() {
    let sel: u8 = kani::any();
    match sel {
        0 => lfn_run(247),
        1 => lfn_run(254),
        _ => lfn_run(255),
    }
    kani::cover!(sel == 2);
}

// ---- C08: which slots a listing skips ----

// @obl props=C08,C17 tier=quick fns=DirIter::should_skip_entry
// @desc forall short / long slots: an entry is skipped iff it is deleted (first byte 0xE5) or (the listing skips volume labels and it is a short entry with the VOLUME_ID attribute); long-name slots are never skipped for their attribute bits
#[kani::proof]
#[kani::unwind(14)]
fn should_skip_entry_contract() {
    let fs = crate::fs::verif_kani::mk_fs_plain(
        NdDev::read_only(),
        crate::fs::verif_kani::bpb_fat16(),
        crate::fs::FsStatusFlags::decode(0),
        crate::fs::verif_kani::opts(false, SymTime::any()),
    );
    let skip_volume: bool = kani::any();
    let it = {
        let root = fs.root_dir();
        DirIter::new(root.stream.clone(), &fs, skip_volume)
    };
    let mut dev = MemDevE::<32>::any();
    let b = dev.data;
    let e = DirEntryData::deserialize(&mut dev).unwrap();
    let skip = it.should_skip_entry(&e);
    let is_lfn = b[11] & 0x0F == 0x0F;
    let want = b[0] == 0xE5 || (!is_lfn && skip_volume && b[11] & 0x08 != 0);
    assert!(skip == want);
    kani::cover!(skip && b[0] != 0xE5);
    kani::cover!(!skip && is_lfn);
    core::mem::forget(it);
    core::mem::forget(fs);
}


// ---- C17 / C19: long-name assembly (LongNameBuilder), one step from representative states, all slot contents ----

fn any_lfn_slot(order: u8, checksum: u8) -> DirLfnEntryData {
    let mut e = DirLfnEntryData::new(order, checksum);
    let part: [u16; 13] = kani::any();
    e.copy_name_from_slice(&part);
    e
}

fn slot_units(e: &DirLfnEntryData) -> [u16; 13] {
    let mut p = [0u16; 13];
    e.copy_name_to_slice(&mut p);
    p
}

/// builder states reached by feeding well-formed prefixes of a run (checksum c):
/// 0: fresh; 1: after the last-flag slot of a 1-slot run; 2: after the last-flag slot of a 2-slot run;
/// 3: after slots 3|0x40 and 2 of a 3-slot run; 4: after the last-flag slot of a 20-slot run
fn prior_state(prior: u8, c: u8) -> (LongNameBuilder, u8, usize) {
    let mut b = LongNameBuilder::new();
    match prior {
        0 => (b, 0, 0),
        1 => {
            b.process(&any_lfn_slot(0x41, c));
            (b, 1, 13)
        }
        2 => {
            b.process(&any_lfn_slot(0x42, c));
            (b, 2, 26)
        }
        3 => {
            b.process(&any_lfn_slot(0x43, c));
            b.process(&any_lfn_slot(0x02, c));
            (b, 2, 39)
        }
        _ => {
            b.process(&any_lfn_slot(0x54, c));
            (b, 20, 260)
        }
    }
}

/// One step of LongNameBuilder::process against the specification of long-name run assembly:
/// a slot with the last flag (re)starts a run of `order & 0x1F` slots; a slot without it continues the run only
/// if its number is the predecessor of the previous one AND it carries the run's checksum; anything else
/// (number 0, number above 20, wrong number, foreign checksum, no run in progress) discards what was collected.
pub(crate) fn lfnb_step_case(prior: u8, order: u8) {
    let c: u8 = kani::any();
    let (mut b, idx0, len0) = prior_state(prior, c);
    assert!(b.index == idx0 && b.buf.len() == len0);
    let before: [u16; 39] = {
        let mut a = [0u16; 39];
        let u = b.buf.as_ucs2_units();
        let mut i = 0;
        while i < 39 {
            if i < u.len() {
                a[i] = u[i];
            }
            i += 1;
        }
        a
    };
    let chk: u8 = kani::any();
    let slot = any_lfn_slot(order, chk);
    let units = slot_units(&slot);
    b.process(&slot);
    let idx = order & 0x1F;
    let last = order & 0x40 != 0;
    if idx == 0 || idx > 20 {
        assert!(b.index == 0 && b.buf.len() == 0);
    } else if last {
        assert!(b.index == idx && b.chksum == chk && b.buf.len() == idx as usize * 13);
        let k: usize = kani::any();
        kani::assume(k < 13);
        assert!(b.buf.as_ucs2_units()[(idx as usize - 1) * 13 + k] == units[k]);
    } else if idx0 == 0 || idx != idx0 - 1 || chk != c {
        // out of sequence or foreign checksum: the run is dropped (never a partial or foreign name)
        assert!(b.index == 0 && b.buf.len() == 0);
    } else {
        assert!(b.index == idx && b.chksum == c && b.buf.len() == len0);
        let k: usize = kani::any();
        kani::assume(k < len0 && k < 39);
        let want = if k / 13 == idx as usize - 1 { units[k % 13] } else { before[k] };
        assert!(b.buf.as_ucs2_units()[k] == want);
    }
}

/// Finishing a run: validate_chksum + into_buf.  n-slot run with arbitrary units, short name arbitrary.
pub(crate) fn lfnb_finish_case(n: u8) {
    let c: u8 = kani::any();
    let mut b = LongNameBuilder::new();
    let mut full = [0u16; 39];
    let mut i = n;
    while i >= 1 {
        let slot = any_lfn_slot(i | if i == n { 0x40 } else { 0 }, c);
        let u = slot_units(&slot);
        let mut k = 0;
        while k < 13 {
            full[(i as usize - 1) * 13 + k] = u[k];
            k += 1;
        }
        b.process(&slot);
        i -= 1;
    }
    let sfn: [u8; 11] = kani::any();
    let matches = lfn_checksum(&sfn) == c;
    b.validate_chksum(&sfn);
    let buf = b.into_buf();
    let out = buf.as_ucs2_units();
    if !matches {
        // the run belongs to another short entry: fall back to the short name
        assert!(out.len() == 0);
    } else {
        // the name is the collected units up to the padding: trailing 0x0000 / 0xFFFF units are not part of it
        let total = n as usize * 13;
        let mut want_len = 0;
        let mut k = 0;
        while k < 39 {
            if k < total && full[k] != 0 && full[k] != 0xFFFF {
                want_len = k + 1;
            }
            k += 1;
        }
        assert!(out.len() == want_len && out.len() <= 255);
        let j: usize = kani::any();
        kani::assume(j < want_len);
        assert!(out[j] == full[j]);
    }
}

// @obl props=C17,C19 tier=quick timeout=900 feat=fn fns=LongNameBuilder::process,LongNameBuilder::into_buf,LongNameBuilder::truncate,LfnBuffer::set_len
// @desc a run that is abandoned and restarted by a shorter one (slot 0x42 of another entry, then a complete 1-slot run): the name returned consists of the units of the restarted run only - nothing of the abandoned run leaks into it (the dynamic and the fixed-buffer build must agree)
#[kani::proof]
#[kani::unwind(264)]
fn lfnb_finish_restart() {
    let c1: u8 = kani::any();
    let c2: u8 = kani::any();
    let mut b = LongNameBuilder::new();
    b.process(&any_lfn_slot(0x42, c1));
    let slot = any_lfn_slot(0x41, c2);
    let u = slot_units(&slot);
    b.process(&slot);
    let sfn: [u8; 11] = kani::any();
    kani::assume(lfn_checksum(&sfn) == c2);
    b.validate_chksum(&sfn);
    let buf = b.into_buf();
    let out = buf.as_ucs2_units();
    let mut want_len = 0;
    let mut k = 0;
    while k < 13 {
        if u[k] != 0 && u[k] != 0xFFFF {
            want_len = k + 1;
        }
        k += 1;
    }
    assert!(out.len() == want_len);
    let j: usize = kani::any();
    kani::assume(j < want_len);
    assert!(out[j] == u[j]);
    kani::cover!(want_len == 13);
}

// @obl props=C17,C19 tier=thorough timeout=3000 heavy=1 fns=LongNameBuilder::process,LongNameBuilder::into_buf,LongNameBuilder::truncate feat=fa,fn
// @desc a well-formed 20-slot run (the longest the builder accepts) whose 260 units are all ordinary characters: the name returned has at most 255 UTF-16 units
#[kani::proof]
#[kani::unwind(264)]
fn lfnb_full_run_20_len() {
    let c: u8 = kani::any();
    let mut b = LongNameBuilder::new();
    let mut i: u8 = 20;
    while i >= 1 {
        let mut e = DirLfnEntryData::new(i | if i == 20 { 0x40 } else { 0 }, c);
        e.copy_name_from_slice(&[0x41u16; 13]);
        b.process(&e);
        i -= 1;
    }
    let buf = b.into_buf();
    assert!(buf.as_ucs2_units().len() <= 255);
    kani::cover!(true);
}

// ---- C15: case-insensitive lookup (DirEntry::eq_name) ----

fn up(b: u8) -> u8 {
    b.to_ascii_uppercase()
}

/// lookup of a query of q_len ASCII characters against an entry whose long name has lfn_len (0 = none, or 2)
/// ASCII units and whose short name is two ASCII characters (no extension)
fn eq_name_case(lfn_len: usize, q_len: usize) {
    let fs = crate::fs::verif_kani::mk_fs_plain(
        NdDev::read_only(),
        crate::fs::verif_kani::bpb_fat16(),
        crate::fs::FsStatusFlags::decode(0),
        crate::fs::verif_kani::opts(false, SymTime::fixed()),
    );
    let l: [u8; 2] = kani::any();
    let s: [u8; 2] = kani::any();
    let q: [u8; 4] = kani::any();
    kani::assume(l[0] < 0x80 && l[1] < 0x80 && l[0] != 0 && l[1] != 0);
    kani::assume(s[0] > 0x20 && s[0] < 0x7F && s[1] > 0x20 && s[1] < 0x7F);
    kani::assume(q[0] < 0x80 && q[1] < 0x80 && q[2] < 0x80);
    let mut raw = [b' '; 11];
    raw[0] = s[0];
    raw[1] = s[1];
    let units = [l[0] as u16, l[1] as u16];
    let e = DirEntry {
        data: DirFileEntryData::new(raw, FileAttributes::from_bits_truncate(0x20)),
        short_name: ShortName::new(&raw),
        lfn_utf16: LfnBuffer::from_ucs2_units(units[..lfn_len].iter().copied()),
        entry_pos: 0,
        offset_range: (0, 0),
        fs: &fs,
    };
    let query = ascii_str(&q, q_len);
    let got = e.eq_name(query);
    let lfn_match = lfn_len == 2 && q_len == 2 && up(l[0]) == up(q[0]) && up(l[1]) == up(q[1]);
    let sfn_match = q_len == 2 && up(s[0]) == up(q[0]) && up(s[1]) == up(q[1]);
    // matches the long name or the alias ignoring case - and nothing else (no prefix / extension matches)
    assert!(got == (lfn_match || sfn_match));
    core::mem::forget(e);
    core::mem::forget(fs);
}

// (not registered as an obligation: does not finish within 25 minutes in this sandbox; kept for reference)
// obl-disabled props=C15 fns=DirEntry::eq_name,DirEntry::eq_name_lfn,ShortName::eq_ignore_case
// @bound bounded: ASCII names; long name absent or 2 characters, alias 2 characters, query 1..3 characters (all symbolic)
// @desc a lookup matches an entry iff the query equals its long name or its short alias ignoring ASCII case - a strict prefix or an extension of the name never matches, an entry without long name answers to its alias only
#[kani::proof]
#[kani::unwind(14)]
fn eq_name_ascii() {
    let sel: u8 = kani::any();
    match sel {
        0 => eq_name_case(0, 2),
        1 => eq_name_case(2, 1),
        2 => eq_name_case(2, 2),
        _ => eq_name_case(2, 3),
    }
    kani::cover!(sel == 2);
}

// ---- C17: accessors of a returned entry are total on arbitrary slot contents ----

/// an entry as the directory iterator builds it: ANY 32-byte short slot (every name byte, attribute bit, stamp
/// field, size and cluster word symbolic), its decoded short name, and a long name of lfn_len arbitrary units
fn any_entry_accessors(lfn_len: usize) {
    let fs = crate::fs::verif_kani::mk_fs_plain(
        NdDev::read_only(),
        crate::fs::verif_kani::bpb_fat16(),
        crate::fs::FsStatusFlags::decode(0),
        crate::fs::verif_kani::opts(false, SymTime::fixed()),
    );
    let data = crate::dir_entry::verif_kani::any_sfn_data();
    let raw: [u8; 11] = *data.name();
    let size_raw = crate::dir_entry::verif_kani::d_size_raw(&data);
    let attrs_raw = crate::dir_entry::verif_kani::d_attrs(&data);
    let want_created = crate::dir_entry::verif_kani::d_created(&data);
    let want_modified = crate::dir_entry::verif_kani::d_modified(&data);
    let want_accessed = crate::dir_entry::verif_kani::d_accessed(&data);
    let units: [u16; 2] = kani::any();
    let e = DirEntry {
        short_name: ShortName::new(&raw),
        data,
        lfn_utf16: LfnBuffer::from_ucs2_units(units[..lfn_len].iter().copied()),
        entry_pos: kani::any(),
        offset_range: (kani::any(), kani::any()),
        fs: &fs,
    };
    // none of these may panic, whatever the slot holds
    let a = e.attributes();
    assert!(a.bits() == attrs_raw);
    let d = e.is_dir();
    let f = e.is_file();
    assert!(d == (attrs_raw & 0x10 != 0));
    assert!(f != d);
    // len reports the stored size field, widened, for a file (the documentation allows 0 for a directory: not pinned)
    let n = e.len();
    assert!(n <= u32::MAX as u64);
    if f {
        assert!(n == size_raw as u64);
    }
    assert!(e.created() == want_created);
    assert!(e.modified() == want_modified);
    assert!(e.accessed() == want_accessed);
    let sb = e.short_file_name_as_bytes();
    assert!(sb.len() <= 12);
    let lu = e.long_file_name_as_ucs2_units();
    match lu {
        None => assert!(lfn_len == 0),
        Some(u) => {
            assert!(lfn_len == 2 && u.len() == 2 && u.len() <= 255);
            assert!(u[0] == units[0] && u[1] == units[1]);
        }
    }
    kani::cover!(d && size_raw == u32::MAX);
    kani::cover!(f && raw[0] == 0x05);
    core::mem::forget(e);
    core::mem::forget(fs);
}

// @obl props=C17 tier=quick fns=DirEntry::attributes,DirEntry::is_dir,DirEntry::is_file,DirEntry::len,DirEntry::created,DirEntry::modified,DirEntry::accessed,DirEntry::short_file_name_as_bytes,DirEntry::long_file_name_as_ucs2_units
// @desc forall 32-byte short slots (name bytes, all 8 attribute bits, out-of-range date/time fields, size, cluster words: 2^256 contents) and entry positions: every non-allocating accessor of the returned DirEntry returns without panic or overflow; attributes = the stored byte, is_dir = bit 0x10 and is_file = its negation, len = the stored size widened for a file (<= u32::MAX always), the three stamps = the decode of the stored fields (total by time::decode_total), the short name is at most 12 bytes, the long name is None iff no long-name units were collected and otherwise exactly those units (unpaired surrogates included)
#[kani::proof]
#[kani::unwind(13)]
fn entry_accessors_total() {
    if kani::any() {
        any_entry_accessors(0);
    } else {
        any_entry_accessors(2);
    }
}

// (not registered as an obligation: CBMC did not finish within 600 s - String building over a symbolic short name; kept for reference)
// obl-disabled props=C17 fns=DirEntry::file_name,DirEntry::short_file_name,ShortName::to_string,DirFileEntryData::lowercase_name
// @bound bounded: long name absent or 2 arbitrary UTF-16 units (lone surrogates included); the short slot is fully symbolic
// @desc forall 32-byte short slots: file_name() and short_file_name() return without panic; the string has at most 12 characters when it comes from the short name (8 + dot + 3) and at most 2 characters when it comes from a 2-unit long name (a lone surrogate is replaced, never dropped or a panic)
#[kani::proof]
#[kani::unwind(14)]
fn entry_string_accessors_total() {
    let with_lfn: bool = kani::any();
    let fs = crate::fs::verif_kani::mk_fs_plain(
        NdDev::read_only(),
        crate::fs::verif_kani::bpb_fat16(),
        crate::fs::FsStatusFlags::decode(0),
        crate::fs::verif_kani::opts(false, SymTime::fixed()),
    );
    let data = crate::dir_entry::verif_kani::any_sfn_data();
    let raw: [u8; 11] = *data.name();
    let units: [u16; 2] = kani::any();
    let n = if with_lfn { 2 } else { 0 };
    let e = DirEntry {
        short_name: ShortName::new(&raw),
        data,
        lfn_utf16: LfnBuffer::from_ucs2_units(units[..n].iter().copied()),
        entry_pos: 0,
        offset_range: (0, 0),
        fs: &fs,
    };
    #[cfg(feature = "alloc")]
    {
        let s = e.short_file_name();
        assert!(s.chars().count() <= 12);
        let name = e.file_name();
        let c = name.chars().count();
        if with_lfn {
            assert!(c == 2);
        } else {
            assert!(c <= 12);
        }
        core::mem::forget(s);
        core::mem::forget(name);
    }
    kani::cover!(with_lfn && units[0] == 0xD800);
    core::mem::forget(e);
    core::mem::forget(fs);
}

// ---- C15: an accepted name is stored losslessly (write path -> read path), per character position ----

// (not registered as an obligation: does not finish within 15 minutes; its content is split into
// accepted_chars_survive_trimming + lfn_generator_run_* + lfnb_finish_*)
// obl-disabled props=C15 fns=validate_long_name,LongNameBuilder::truncate
// @bound bounded: names "a" + c for ANY accepted char c (the last position of a name), fixed-buffer build; longer names: lfn_generator_run_* + lfnb_finish_*
// @desc for every name "a"+c that validate_long_name ACCEPTS: the long-name slot generated for it, fed back through the long-name builder together with its short entry, yields exactly the same UTF-16 units - nothing is trimmed from or added to an accepted name (in particular its last character survives)
#[kani::proof]
#[kani::unwind(264)]
fn lfn_roundtrip_two_chars() {
    let c1: char = 'a';
    let c2: char = kani::any();
    let mut buf = [0u8; 8];
    let n1 = c1.encode_utf8(&mut buf[..4]).len();
    let n2 = c2.encode_utf8(&mut buf[n1..]).len();
    let name = unsafe { core::str::from_utf8_unchecked(&buf[..n1 + n2]) };
    kani::assume(validate_long_name::<()>(name).is_ok());
    // accepted characters fit one UTF-16 unit
    assert!((c1 as u32) <= 0xFFFF && (c2 as u32) <= 0xFFFF);
    let units = [c1 as u16, c2 as u16];
    let sfn: [u8; 11] = kani::any();
    let chk = lfn_checksum(&sfn);
    let mut gen = LfnEntriesGenerator::new(&units, chk);
    let slot = gen.next().unwrap();
    assert!(gen.next().is_none());
    let mut b = LongNameBuilder::new();
    b.process(&slot);
    b.validate_chksum(&sfn);
    let out = b.into_buf();
    let got = out.as_ucs2_units();
    assert!(got.len() == 2);
    assert!(got[0] == units[0] && got[1] == units[1]);
    kani::cover!(c2 as u32 >= 0x80);
}


// @obl props=C15 tier=quick fns=validate_long_name,LongNameBuilder::truncate
// @desc side condition of the lossless round trip (the long-name reader trims trailing 0x0000 and 0xFFFF units: lfnb_finish_*): for EVERY char c, if validate_long_name accepts c then c is neither U+0000 nor U+FFFF - so the last character of an accepted name can never be mistaken for padding and trimmed away
#[kani::proof]
#[kani::unwind(6)]
fn accepted_chars_survive_trimming() {
    let c: char = kani::any();
    let mut buf = [0u8; 4];
    let s: &str = c.encode_utf8(&mut buf);
    if validate_long_name::<()>(s).is_ok() {
        assert!(c as u32 != 0xFFFF, "U+FFFF is accepted in a name but trimmed as padding when the name is read back");
        assert!(c as u32 != 0);
    }
    kani::cover!(c as u32 == 0xFFFE);
}
