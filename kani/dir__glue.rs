// Kani obligations for the Dir-level glue of src/dir.rs: the real body of Dir::check_for_existence checked against the
// contracts of its callees (find_entry, ShortNameGenerator::generate, ShortNameGenerator::next_iteration).
// @needs dir,fs,boot_sector
#![allow(dead_code, unused_imports, unused_variables, unused_mut)]
use super::*;
use crate::verif_common::*;
use crate::fs::FsStatusFlags;

// ghost state of the scan protocol (C16):
//   SCANNED   - every existing entry of the directory has been fed to the generator (add_existing) since the collision
//               records were last reset; this is the precondition under which generate() returns a unique alias
//               (obligations add_existing_then_generate_differs, generate_legal)
//   GEN_CALLS - number of generate() calls so far (bounds the retry loop for the model checker)
static mut SCANNED: bool = false;
static mut GEN_CALLS: u32 = 0;
static mut FIND_CALLS: u32 = 0;
static mut RETURNED: [u8; 11] = [0; 11];

/// contract of Dir::find_entry as used by check_for_existence: with a generator supplied, a NotFound result means the
/// whole directory has been iterated and every entry passed to add_existing; any other error may come from any point
fn stub_find_entry<'a, IO: ReadWriteSeek, TP: TimeProvider, OCC: OemCpConverter>(
    _this: &Dir<'a, IO, TP, OCC>,
    _name: &str,
    _is_dir: Option<bool>,
    short_name_gen: Option<&mut ShortNameGenerator>,
) -> Result<DirEntry<'a, IO, TP, OCC>, Error<IO::Error>>
where
    'a: 'a, // (makes 'a early-bound, as in the impl the stub replaces)
{
    unsafe { FIND_CALLS += 1 };
    assert!(short_name_gen.is_some(), "the existence scan must feed the alias generator");
    if kani::any() {
        unsafe { SCANNED = true };
        Err(Error::NotFound)
    } else {
        Err(Error::InvalidInput)
    }
}

/// contract of ShortNameGenerator::generate: requires SCANNED (else the alias may duplicate an existing one)
fn stub_generate(_this: &ShortNameGenerator) -> Result<[u8; 11], Error<()>> {
    assert!(unsafe { SCANNED }, "generate() is only called after a complete scan since the last reset of the collision records");
    let n = unsafe {
        GEN_CALLS += 1;
        GEN_CALLS
    };
    if n >= 3 || kani::any() {
        let name: [u8; 11] = kani::any();
        unsafe { RETURNED = name };
        Ok(name)
    } else {
        Err(Error::AlreadyExists)
    }
}

/// contract of ShortNameGenerator::next_iteration: the collision records are reset, so a new scan is required
fn stub_next_iteration(_this: &mut ShortNameGenerator) {
    unsafe { SCANNED = false };
}

// @obl props=C16 tier=quick fns=Dir::check_for_existence timeout=600
// @bound retry loop explored up to 3 generate() attempts (the third is made to succeed); the loop body does not depend on the attempt number
// @desc scan protocol of Dir::check_for_existence (real body; find_entry, generate and next_iteration replaced by their contracts): the generator is always passed to the scan; generate() is only ever called after a complete directory scan made since the collision records were last reset (the precondition under which the alias is unique, see add_existing_then_generate_differs); the alias returned is the one generate() produced; a scan error is propagated without generating
#[kani::proof]
#[kani::unwind(20)]
#[kani::stub(core::slice::memchr::memrchr, crate::dir::verif_kani::simple_memrchr)]
#[kani::stub(crate::dir::Dir::find_entry, stub_find_entry)]
#[kani::stub(crate::dir::ShortNameGenerator::generate, stub_generate)]
#[kani::stub(crate::dir::ShortNameGenerator::next_iteration, stub_next_iteration)]
fn existence_scan_protocol() {
    let dev = MemDev::<16>::zeroed();
    let fs = crate::fs::verif_kani::mk_fs_plain(
        dev,
        crate::fs::verif_kani::bpb_fat16(),
        FsStatusFlags { dirty: false, io_error: false },
        crate::fs::verif_kani::opts(false, SymTime::fixed()),
    );
    let root = fs.root_dir();
    let is_dir: Option<bool> = if kani::any() { Some(kani::any()) } else { None };
    let r = root.check_for_existence("Long file name.txt", is_dir);
    let gens = unsafe { GEN_CALLS };
    let finds = unsafe { FIND_CALLS };
    match r {
        Ok(DirEntryOrShortName::ShortName(n)) => {
            assert!(gens >= 1 && finds == gens);
            assert!(n == unsafe { RETURNED });
        }
        Ok(DirEntryOrShortName::DirEntry(_)) => assert!(false),
        Err(Error::InvalidInput) => assert!(finds == gens + 1),
        Err(_) => assert!(false),
    }
    kani::cover!(gens == 3);
    kani::cover!(gens == 1 && finds == 1);
    kani::cover!(finds == 2 && gens == 1);
}

// ---- C03 / C15 / C16: what Dir::write_entry puts into the directory ----

static mut G_FREE_NUM: u32 = 0;
const SLOT: u64 = 3;

/// contract of Dir::find_free_entries: a clone of the directory stream positioned at the first of `num_entries`
/// consecutive free slots (which slot is the callee's business; the harness fixes one)
fn stub_find_free<'a, IO: ReadWriteSeek, TP: TimeProvider, OCC: OemCpConverter>(
    this: &Dir<'a, IO, TP, OCC>,
    num_entries: u32,
) -> Result<DirRawStream<'a, IO, TP, OCC>, Error<IO::Error>>
where
    'a: 'a,
{
    unsafe { G_FREE_NUM = num_entries };
    let mut stream = this.stream.clone();
    stream.seek(SeekFrom::Start(SLOT * 32))?;
    Ok(stream)
}

/// UTF-16 unit k (0..13) of a serialized long-name slot
fn slot_unit(b: &[u8], k: usize) -> u16 {
    let o = if k < 5 { 1 + 2 * k } else if k < 11 { 14 + 2 * (k - 5) } else { 28 + 2 * (k - 11) };
    le16(b, o)
}

const NLEN: usize = 14;

// @obl props=C03,C15,C16 tier=quick fns=Dir::write_entry,Dir::alloc_and_write_lfn_entries,Dir::encode_lfn_utf16,LfnEntriesGenerator::next,DirLfnEntryData::serialize,DirFileEntryData::serialize timeout=900
// @bound one name length (14 letters: two long-name slots, the second partially filled), one slot position in a FAT12 root directory; letters, the 11 alias bytes and every other field of the short entry symbolic
// @desc Dir::write_entry (real body; find_free_entries replaced by its contract) stores a 14-letter name as: slot run requested = 2 long-name slots + 1 short entry; first the slot numbered 2 with the last-flag (0x42), then slot 1, then the short entry, contiguous from the position find_free_entries returned; every long-name slot carries attribute 0x0F, type 0, cluster 0 and the checksum of THE alias bytes stored in the short entry (rotate-right sum, obligation lfn_checksum_spec); the units are the name's UTF-16 units in order, then one 0x0000 terminator, then 0xFFFF padding (lossless storage); the short entry bytes are the serialized entry as given; the returned descriptor points at the short entry (entry_pos) and at the whole run (offset_range) and carries the name; nothing outside the three slots is written
#[kani::proof]
#[kani::unwind(34)]
#[kani::stub(crate::dir::Dir::find_free_entries, stub_find_free)]
fn write_entry_layout() {
    let bpb = crate::fs::verif_kani::bpb_fat12();
    let root_begin = (bpb.reserved_sectors as u64 + bpb.fats as u64 * bpb.sectors_per_fat() as u64) * bpb.bytes_per_sector as u64;
    let lo = root_begin + SLOT * 32;
    let dev = WinDev::<96>::new(lo);
    // (volume already marked dirty: the status byte is not this obligation's subject)
    let fs = crate::fs::verif_kani::mk_fs_plain(dev, bpb, FsStatusFlags { dirty: true, io_error: false }, crate::fs::verif_kani::opts(false, SymTime::fixed()));
    let root = fs.root_dir();
    let letters: [u8; NLEN] = kani::any();
    let mut i = 0;
    while i < NLEN {
        kani::assume((letters[i] >= b'a' && letters[i] <= b'z') || (letters[i] >= b'A' && letters[i] <= b'Z'));
        i += 1;
    }
    let name: &str = unsafe { core::str::from_utf8_unchecked(&letters) };
    let raw = crate::dir_entry::verif_kani::any_sfn_data();
    let alias: [u8; 11] = *raw.name();
    let mut chk: u8 = 0;
    let mut i = 0;
    while i < 11 {
        chk = (((chk & 1) << 7) as u8).wrapping_add(chk >> 1).wrapping_add(alias[i]);
        i += 1;
    }
    let r = root.write_entry(name, raw.clone());
    assert!(r.is_ok());
    let e = r.unwrap();
    assert!(unsafe { G_FREE_NUM } == 3);
    assert!(e.entry_pos == lo + 64);
    assert!(e.offset_range == (SLOT * 32, SLOT * 32 + 96));
    let d = fs.disk.borrow();
    assert!(!d.outside);
    let b = &d.data;
    // slot headers
    assert!(b[0] == 0x42 && b[32] == 0x01);
    assert!(b[11] == 0x0F && b[32 + 11] == 0x0F && b[12] == 0 && b[32 + 12] == 0);
    assert!(b[13] == chk && b[32 + 13] == chk);
    assert!(b[26] == 0 && b[27] == 0 && b[32 + 26] == 0 && b[32 + 27] == 0);
    // units: slot 1 (second on disk) holds units 0..13, slot 2 (first on disk) holds unit 13, terminator, padding
    let k: usize = kani::any();
    kani::assume(k < 13);
    assert!(slot_unit(&b[32..64], k) == letters[k] as u16);
    let want = if k == 0 { letters[13] as u16 } else if k == 1 { 0 } else { 0xFFFF };
    assert!(slot_unit(&b[0..32], k) == want);
    // the short entry: alias bytes first, then the fields as given
    let j: usize = kani::any();
    kani::assume(j < 11);
    assert!(b[64 + j] == alias[j]);
    assert!(le32(&b[64..96], 28) == crate::dir_entry::verif_kani::d_size_raw(&raw));
    // the descriptor carries the name
    #[cfg(feature = "lfn")]
    {
        let u = e.lfn_utf16.as_ucs2_units();
        assert!(u.len() == NLEN);
        let m: usize = kani::any();
        kani::assume(m < NLEN);
        assert!(u[m] == letters[m] as u16);
    }
    kani::cover!(chk == 0x5A && letters[0] == b'q');
    core::mem::forget(e);
    drop(d);
    core::mem::forget(root);
    core::mem::forget(fs);
}
