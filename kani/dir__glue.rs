// Kani obligations for the Dir-level glue of src/dir.rs: the real body of Dir::check_for_existence checked against the
// contracts of its callees (find_entry, ShortNameGenerator::generate, ShortNameGenerator::next_iteration).
// @needs dir,fs,boot_sector
#![allow(dead_code, unused_imports, unused_variables, unused_mut)]
use super::*;
use crate::verif_common::*;
use crate::fs::FsStatusFlags;

// ghost state of the scan protocol (C16):
//   SCANNED   - every existing entry of the directory has been fed to the generator (add_existing) since the collision
//               records were last reset; this is the precondition under which generate() returns a unique alias
//               (obligations add_existing_then_generate_differs, generate_legal)
//   GEN_CALLS - number of generate() calls so far (bounds the retry loop for the model checker)
static mut SCANNED: bool = false;
static mut GEN_CALLS: u32 = 0;
static mut FIND_CALLS: u32 = 0;
static mut RETURNED: [u8; 11] = [0; 11];

/// contract of Dir::find_entry as used by check_for_existence: with a generator supplied, a NotFound result means the
/// whole directory has been iterated and every entry passed to add_existing; any other error may come from any point
fn stub_find_entry<'a, IO: ReadWriteSeek, TP: TimeProvider, OCC: OemCpConverter>(
    _this: &Dir<'a, IO, TP, OCC>,
    _name: &str,
    _is_dir: Option<bool>,
    short_name_gen: Option<&mut ShortNameGenerator>,
) -> Result<DirEntry<'a, IO, TP, OCC>, Error<IO::Error>>
where
    'a: 'a, // (makes 'a early-bound, as in the impl the stub replaces)
{
    unsafe { FIND_CALLS += 1 };
    assert!(short_name_gen.is_some(), "the existence scan must feed the alias generator");
    if kani::any() {
        unsafe { SCANNED = true };
        Err(Error::NotFound)
    } else {
        Err(Error::InvalidInput)
    }
}

/// contract of ShortNameGenerator::generate: requires SCANNED (else the alias may duplicate an existing one)
fn stub_generate(_this: &ShortNameGenerator) -> Result<[u8; 11], Error<()>> {
    assert!(unsafe { SCANNED }, "generate() is only called after a complete scan since the last reset of the collision records");
    let n = unsafe {
        GEN_CALLS += 1;
        GEN_CALLS
    };
    if n >= 3 || kani::any() {
        let name: [u8; 11] = kani::any();
        unsafe { RETURNED = name };
        Ok(name)
    } else {
        Err(Error::AlreadyExists)
    }
}

/// contract of ShortNameGenerator::next_iteration: the collision records are reset, so a new scan is required
fn stub_next_iteration(_this: &mut ShortNameGenerator) {
    unsafe { SCANNED = false };
}

// @obl props=C16 tier=quick fns=Dir::check_for_existence timeout=600
// @bound retry loop explored up to 3 generate() attempts (the third is made to succeed); the loop body does not depend on the attempt number
// @desc scan protocol of Dir::check_for_existence (real body; find_entry, generate and next_iteration replaced by their contracts): the generator is always passed to the scan; generate() is only ever called after a complete directory scan made since the collision records were last reset (the precondition under which the alias is unique, see add_existing_then_generate_differs); the alias returned is the one generate() produced; a scan error is propagated without generating
#[kani::proof]
#[kani::unwind(20)]
#[kani::stub(core::slice::memchr::memrchr, crate::dir::verif_kani::simple_memrchr)]
#[kani::stub(crate::dir::Dir::find_entry, stub_find_entry)]
#[kani::stub(crate::dir::ShortNameGenerator::generate, stub_generate)]
#[kani::stub(crate::dir::ShortNameGenerator::next_iteration, stub_next_iteration)]
fn existence_scan_protocol() {
    let dev = MemDev::<16>::zeroed();
    let fs = crate::fs::verif_kani::mk_fs_plain(
        dev,
        crate::fs::verif_kani::bpb_fat16(),
        FsStatusFlags { dirty: false, io_error: false },
        crate::fs::verif_kani::opts(false, SymTime::fixed()),
    );
    let root = fs.root_dir();
    let is_dir: Option<bool> = if kani::any() { Some(kani::any()) } else { None };
    let r = root.check_for_existence("Long file name.txt", is_dir);
    let gens = unsafe { GEN_CALLS };
    let finds = unsafe { FIND_CALLS };
    match r {
        Ok(DirEntryOrShortName::ShortName(n)) => {
            assert!(gens >= 1 && finds == gens);
            assert!(n == unsafe { RETURNED });
        }
        Ok(DirEntryOrShortName::DirEntry(_)) => assert!(false),
        Err(Error::InvalidInput) => assert!(finds == gens + 1),
        Err(_) => assert!(false),
    }
    kani::cover!(gens == 3);
    kani::cover!(gens == 1 && finds == 1);
    kani::cover!(finds == 2 && gens == 1);
}
