// Kani obligations for the Dir-level glue of src/dir.rs: the real body of Dir::check_for_existence checked against the
// contracts of its callees (find_entry, ShortNameGenerator::generate, ShortNameGenerator::next_iteration).
// @needs dir,fs,boot_sector,file,dir_entry
#![allow(dead_code, unused_imports, unused_variables, unused_mut)]
use super::*;
use crate::verif_common::*;
use crate::fs::FsStatusFlags;

// ghost state of the scan protocol (C16):
//   SCANNED   - every existing entry of the directory has been fed to the generator (add_existing) since the collision
//               records were last reset; this is the precondition under which generate() returns a unique alias
//               (obligations add_existing_then_generate_differs, generate_legal)
//   GEN_CALLS - number of generate() calls so far (bounds the retry loop for the model checker)
static mut SCANNED: bool = false;
static mut GEN_CALLS: u32 = 0;
static mut FIND_CALLS: u32 = 0;
static mut RETURNED: [u8; 11] = [0; 11];

/// contract of Dir::find_entry as used by check_for_existence: with a generator supplied, a NotFound result means the
/// whole directory has been iterated and every entry passed to add_existing; any other error may come from any point
fn stub_find_entry<'a, IO: ReadWriteSeek, TP: TimeProvider, OCC: OemCpConverter>(
    _this: &Dir<'a, IO, TP, OCC>,
    _name: &str,
    _is_dir: Option<bool>,
    short_name_gen: Option<&mut ShortNameGenerator>,
) -> Result<DirEntry<'a, IO, TP, OCC>, Error<IO::Error>>
where
    'a: 'a, // (makes 'a early-bound, as in the impl the stub replaces)
{
    unsafe { FIND_CALLS += 1 };
    assert!(short_name_gen.is_some(), "the existence scan must feed the alias generator");
    if kani::any() {
        unsafe { SCANNED = true };
        Err(Error::NotFound)
    } else {
        Err(Error::InvalidInput)
    }
}

/// contract of ShortNameGenerator::generate: requires SCANNED (else the alias may duplicate an existing one)
fn stub_generate(_this: &ShortNameGenerator) -> Result<[u8; 11], Error<()>> {
    assert!(unsafe { SCANNED }, "generate() is only called after a complete scan since the last reset of the collision records");
    let n = unsafe {
        GEN_CALLS += 1;
        GEN_CALLS
    };
    if n >= 3 || kani::any() {
        let name: [u8; 11] = kani::any();
        unsafe { RETURNED = name };
        Ok(name)
    } else {
        Err(Error::AlreadyExists)
    }
}

/// contract of ShortNameGenerator::next_iteration: the collision records are reset, so a new scan is required
fn stub_next_iteration(_this: &mut ShortNameGenerator) {
    unsafe { SCANNED = false };
}

// @obl props=C16 tier=quick fns=Dir::check_for_existence timeout=600
// @bound retry loop explored up to 3 generate() attempts (the third is made to succeed); the loop body does not depend on the attempt number
// @desc scan protocol of Dir::check_for_existence (real body; find_entry, generate and next_iteration replaced by their contracts): the generator is always passed to the scan; generate() is only ever called after a complete directory scan made since the collision records were last reset (the precondition under which the alias is unique, see add_existing_then_generate_differs); the alias returned is the one generate() produced; a scan error is propagated without generating
#[kani::proof]
#[kani::unwind(20)]
#[kani::stub(core::slice::memchr::memrchr, crate::dir::verif_kani::simple_memrchr)]
#[kani::stub(crate::dir::Dir::find_entry, stub_find_entry)]
#[kani::stub(crate::dir::ShortNameGenerator::generate, stub_generate)]
#[kani::stub(crate::dir::ShortNameGenerator::next_iteration, stub_next_iteration)]
fn existence_scan_protocol() {
    let dev = MemDev::<16>::zeroed();
    let fs = crate::fs::verif_kani::mk_fs_plain(
        dev,
        crate::fs::verif_kani::bpb_fat16(),
        FsStatusFlags { dirty: false, io_error: false },
        crate::fs::verif_kani::opts(false, SymTime::fixed()),
    );
    let root = fs.root_dir();
    let is_dir: Option<bool> = if kani::any() { Some(kani::any()) } else { None };
    let r = root.check_for_existence("Long file name.txt", is_dir);
    let gens = unsafe { GEN_CALLS };
    let finds = unsafe { FIND_CALLS };
    match r {
        Ok(DirEntryOrShortName::ShortName(n)) => {
            assert!(gens >= 1 && finds == gens);
            assert!(n == unsafe { RETURNED });
        }
        Ok(DirEntryOrShortName::DirEntry(_)) => assert!(false),
        Err(Error::InvalidInput) => assert!(finds == gens + 1),
        Err(_) => assert!(false),
    }
    kani::cover!(gens == 3);
    kani::cover!(gens == 1 && finds == 1);
    kani::cover!(finds == 2 && gens == 1);
}

// ---- C03 / C18: new entries: stamps of create_sfn_entry, wiring of create_file / create_dir ----

fn t10(t: crate::time::DateTime) -> crate::time::DateTime {
    crate::time::DateTime::new(t.date, crate::time::Time::new(t.time.hour, t.time.min, t.time.sec, t.time.millis / 10 * 10))
}
fn t2s(t: crate::time::DateTime) -> crate::time::DateTime {
    crate::time::DateTime::new(t.date, crate::time::Time::new(t.time.hour, t.time.min, t.time.sec - t.time.sec % 2, 0))
}
fn dt_eq(a: crate::time::DateTime, b: crate::time::DateTime) -> bool {
    a.date == b.date && a.time == b.time
}

// @obl props=C03,C18 tier=quick fns=Dir::create_sfn_entry
// @desc forall provider times (every valid date and time of day), alias bytes, attribute bytes and first clusters valid for the FAT type (three fixtures): the short entry of a new file or directory carries the alias and attributes given, size 0, the first cluster given, and all three stamps taken from the provider at that moment: creation to 10 ms, modification to 2 s, access date exact
#[kani::proof]
#[kani::unwind(13)]
fn create_sfn_entry_contract() {
    let sel: u8 = kani::any();
    kani::assume(sel < 3);
    let bpb = match sel {
        0 => crate::fs::verif_kani::bpb_fat12(),
        1 => crate::fs::verif_kani::bpb_fat16(),
        _ => crate::fs::verif_kani::bpb_fat32(),
    };
    let max = bpb.total_clusters() + 2;
    let tp = SymTime::any();
    let now = tp.dt;
    let fs = crate::fs::verif_kani::mk_fs_plain(NdDev::read_only(), bpb, FsStatusFlags { dirty: false, io_error: false }, crate::fs::verif_kani::opts(false, tp));
    // (the root directory value of a FAT12/16 volume; create_sfn_entry only uses self.fs)
    let dir = Dir::new(DirRawStream::File(File::new(Some(2), None, &fs)), &fs);
    let alias: [u8; 11] = kani::any();
    let attrs = FileAttributes::from_bits_truncate(kani::any());
    let first: Option<u32> = if kani::any() { Some(kani::any()) } else { None };
    if let Some(c) = first {
        kani::assume(c >= 2 && c < max);
    }
    let e = dir.create_sfn_entry(alias, attrs, first);
    assert!(*e.name() == alias);
    assert!(crate::dir_entry::verif_kani::d_attrs(&e) == attrs.bits());
    assert!(crate::dir_entry::verif_kani::d_size_raw(&e) == 0);
    assert!(e.first_cluster(fs.fat_type()) == first);
    assert!(dt_eq(crate::dir_entry::verif_kani::d_created(&e), t10(now)));
    assert!(dt_eq(crate::dir_entry::verif_kani::d_modified(&e), t2s(now)));
    assert!(crate::dir_entry::verif_kani::d_accessed(&e) == now.date);
    assert!(fs.disk.borrow().nlog == 0);
    kani::cover!(first == Some(0x12345) && now.time.sec == 59);
    core::mem::forget(dir);
    core::mem::forget(fs);
}

#[derive(Clone)]
struct WrRec {
    name_len: usize,
    name0: u8,
    name1: u8,
    data: Option<DirFileEntryData>,
    dir_first: Option<u32>,
    dir_is_root: bool,
}
const WR_NONE: WrRec = WrRec { name_len: 0, name0: 0, name1: 0, data: None, dir_first: None, dir_is_root: false };
static mut WR_LOG: [WrRec; 3] = [WR_NONE, WR_NONE, WR_NONE];
static mut WR_N: usize = 0;
static mut WR_FAIL_AT: usize = 99;
static mut G_CFE_ALIAS: [u8; 11] = [0; 11];
static mut G_CFE_ISDIR: Option<Option<bool>> = None;
static mut G_ALLOC: Option<(Option<u32>, bool)> = None;
static mut G_ALLOC_RET: Option<u32> = None;

/// contract of Dir::write_entry as its callers use it: the entry is stored under `name` in THIS directory and the
/// descriptor returned carries the entry as given (or an error, at the call the harness chooses)
fn stub_write_entry<'a, IO: ReadWriteSeek, TP: TimeProvider, OCC: OemCpConverter>(
    this: &Dir<'a, IO, TP, OCC>,
    name: &str,
    raw_entry: DirFileEntryData,
) -> Result<DirEntry<'a, IO, TP, OCC>, Error<IO::Error>>
where
    'a: 'a,
{
    let n = unsafe { WR_N };
    let b = name.as_bytes();
    let rec = WrRec {
        name_len: b.len(),
        name0: if b.len() > 0 { b[0] } else { 0 },
        name1: if b.len() > 1 { b[1] } else { 0 },
        data: Some(raw_entry.clone()),
        dir_first: this.stream.first_cluster(),
        dir_is_root: this.stream.is_root_dir(),
    };
    unsafe {
        if n < 3 {
            WR_LOG[n] = rec;
        }
        WR_N = n + 1;
    }
    if n == unsafe { WR_FAIL_AT } {
        return Err(Error::NotEnoughSpace);
    }
    let short_name = ShortName::new(raw_entry.name());
    Ok(DirEntry {
        data: raw_entry,
        short_name,
        #[cfg(feature = "lfn")]
        lfn_utf16: Dir::<'a, IO, TP, OCC>::encode_lfn_utf16(""),
        entry_pos: 0x4000,
        offset_range: (64, 160),
        fs: this.fs,
    })
}

/// contract of Dir::check_for_existence (name not present): the alias to use
fn stub_cfe_fresh<'a, IO: ReadWriteSeek, TP: TimeProvider, OCC: OemCpConverter>(
    _this: &Dir<'a, IO, TP, OCC>,
    _name: &str,
    is_dir: Option<bool>,
) -> Result<DirEntryOrShortName<'a, IO, TP, OCC>, Error<IO::Error>>
where
    'a: 'a,
{
    unsafe { G_CFE_ISDIR = Some(is_dir) };
    Ok(DirEntryOrShortName::ShortName(unsafe { G_CFE_ALIAS }))
}

/// contract of FileSystem::alloc_cluster: a cluster of the volume (chosen by the harness) or no space
fn stub_fs_alloc<IO: ReadWriteSeek, TP, OCC>(_fs: &FileSystem<IO, TP, OCC>, prev: Option<u32>, zero: bool) -> Result<u32, Error<IO::Error>> {
    unsafe { G_ALLOC = Some((prev, zero)) };
    match unsafe { G_ALLOC_RET } {
        Some(c) => Ok(c),
        None => Err(Error::NotEnoughSpace),
    }
}

fn wiring_bpb(sel: u8) -> crate::boot_sector::BiosParameterBlock {
    if sel == 0 {
        crate::fs::verif_kani::bpb_fat16()
    } else {
        crate::fs::verif_kani::bpb_fat32()
    }
}

fn wiring_fs(sel: u8) -> FileSystem<NdDev, SymTime, crate::fs::LossyOemCpConverter> {
    let bpb = wiring_bpb(sel);
    crate::fs::verif_kani::mk_fs_plain(NdDev::read_only(), bpb, FsStatusFlags { dirty: false, io_error: false }, crate::fs::verif_kani::opts(false, SymTime::fixed()))
}

// (cases in which the write of "." or ".." fails are not registered: dropping the half-made directory handle on the
// error path is intractable for the model checker here; nothing is claimed for them)
fn create_dir_case(sel: u8, fail_at: usize) {
    kani::assume(sel < 3);
    let fs = wiring_fs(if sel == 0 { 0 } else { 1 });
    let max = wiring_bpb(if sel == 0 { 0 } else { 1 }).total_clusters() + 2;
    let parent_first: u32 = kani::any();
    kani::assume(parent_first >= 2 && parent_first < max);
    // sel 0: FAT16 root (fixed region); 1: FAT32 root (a chain, but still "the root"); 2: FAT32 subdirectory
    let parent = match sel {
        0 | 1 => fs.root_dir(),
        _ => Dir::new(DirRawStream::File(File::new(Some(parent_first), Some(crate::dir_entry::verif_kani::ed_new(crate::dir_entry::verif_kani::any_sfn_data(), 0x2000, false)), &fs)), &fs),
    };
    let alias: [u8; 11] = kani::any();
    let newc: Option<u32> = if kani::any() { Some(kani::any()) } else { None };
    if let Some(c) = newc {
        kani::assume(c >= 2 && c < max);
    }
    kani::assume(fail_at <= 3);
    unsafe {
        G_CFE_ALIAS = alias;
        G_ALLOC_RET = newc;
        WR_FAIL_AT = fail_at;
    }
    let r = parent.create_dir("New Folder");
    let n = unsafe { WR_N };
    assert!(unsafe { G_CFE_ISDIR } == Some(Some(true)));
    assert!(unsafe { G_ALLOC } == Some((None, true)));
    match newc {
        None => {
            assert!(matches!(r, Err(Error::NotEnoughSpace)) && n == 0);
        }
        Some(c) => {
            let log = unsafe { WR_LOG.clone() };
            // 1st: the entry in the parent
            assert!(n >= 1);
            let e0 = log[0].data.as_ref().unwrap();
            assert!(log[0].name_len == 10 && log[0].name0 == b'N');
            assert!(*e0.name() == alias && e0.is_dir() && e0.first_cluster(fs.fat_type()) == Some(c));
            assert!(log[0].dir_is_root == (sel != 2));
            if sel == 2 {
                assert!(log[0].dir_first == Some(parent_first));
            }
            if fail_at == 0 {
                assert!(r.is_err() && n == 1);
            } else {
                // 2nd: "." in the new directory, pointing at itself
                assert!(n >= 2);
                let e1 = log[1].data.as_ref().unwrap();
                assert!(log[1].name_len == 1 && log[1].name0 == b'.');
                assert!(*e1.name() == *b".          " && e1.is_dir() && e1.first_cluster(fs.fat_type()) == Some(c));
                assert!(log[1].dir_first == Some(c) && !log[1].dir_is_root);
                if fail_at == 1 {
                    assert!(r.is_err() && n == 2);
                } else {
                    // 3rd: ".." in the new directory, pointing at the parent (0 for the root)
                    assert!(n == 3);
                    let e2 = log[2].data.as_ref().unwrap();
                    assert!(log[2].name_len == 2 && log[2].name0 == b'.' && log[2].name1 == b'.');
                    assert!(*e2.name() == *b"..         " && e2.is_dir());
                    assert!(e2.first_cluster(fs.fat_type()) == if sel == 2 { Some(parent_first) } else { None });
                    assert!(log[2].dir_first == Some(c) && !log[2].dir_is_root);
                    if fail_at == 2 {
                        assert!(r.is_err());
                    } else {
                        assert!(r.is_ok());
                        let d = r.as_ref().unwrap();
                        assert!(d.stream.first_cluster() == Some(c) && !d.stream.is_root_dir());
                    }
                }
            }
        }
    }
    // (dropping a directory handle on an error path flushes the device; nothing is written)
    assert!(fs.disk.borrow().nwrites == 0);
    kani::cover!(r.is_ok() == (fail_at == 3));
    core::mem::forget(r);
    core::mem::forget(parent);
    core::mem::forget(fs);
}

// @obl props=C03,C18 tier=quick fns=Dir::create_dir timeout=900
// @bound parent = the root directory of a FAT16 fixture; every write succeeds (or the allocation fails); one concrete name; alias bytes and the allocated cluster symbolic
// @desc wiring of Dir::create_dir for a name that does not exist (real body; check_for_existence, FileSystem::alloc_cluster and write_entry replaced by their contracts): existence is checked asking for a directory; exactly one cluster is allocated, as the start of a new chain and zero-filled (so the new directory ends at its first slot); the entry written into THIS directory has the alias from the existence check, the DIRECTORY attribute and the allocated cluster; then "." (pointing at the new directory's own cluster) and ".." (pointing at the parent's first cluster, 0 when the parent is the root, also on FAT32) are written into the NEW directory, both with the DIRECTORY attribute and the dot aliases; the directory returned is the new one; an allocation failure writes nothing, and an entry-write failure is returned
#[kani::proof]
#[kani::unwind(13)]
#[kani::stub(crate::dir::Dir::check_for_existence, stub_cfe_fresh)]
#[kani::stub(crate::dir::Dir::write_entry, stub_write_entry)]
#[kani::stub(crate::fs::FileSystem::alloc_cluster, stub_fs_alloc)]
fn create_dir_wiring_p0_f3() {
    create_dir_case(0, 3);
}

// @obl props=C03,C18 tier=quick fns=Dir::create_dir timeout=900
// @bound parent = the root directory of a FAT16 fixture; the write of the new entry fails (or the allocation fails); one concrete name; alias bytes and the allocated cluster symbolic
// @desc wiring of Dir::create_dir for a name that does not exist (real body; check_for_existence, FileSystem::alloc_cluster and write_entry replaced by their contracts): existence is checked asking for a directory; exactly one cluster is allocated, as the start of a new chain and zero-filled (so the new directory ends at its first slot); the entry written into THIS directory has the alias from the existence check, the DIRECTORY attribute and the allocated cluster; then "." (pointing at the new directory's own cluster) and ".." (pointing at the parent's first cluster, 0 when the parent is the root, also on FAT32) are written into the NEW directory, both with the DIRECTORY attribute and the dot aliases; the directory returned is the new one; an allocation failure writes nothing, and an entry-write failure is returned
#[kani::proof]
#[kani::unwind(13)]
#[kani::stub(crate::dir::Dir::check_for_existence, stub_cfe_fresh)]
#[kani::stub(crate::dir::Dir::write_entry, stub_write_entry)]
#[kani::stub(crate::fs::FileSystem::alloc_cluster, stub_fs_alloc)]
fn create_dir_wiring_p0_f0() {
    create_dir_case(0, 0);
}

// @obl props=C03,C18 tier=quick fns=Dir::create_dir timeout=900
// @bound parent = the root directory of a FAT32 fixture; every write succeeds (or the allocation fails); one concrete name; alias bytes and the allocated cluster symbolic
// @desc wiring of Dir::create_dir for a name that does not exist (real body; check_for_existence, FileSystem::alloc_cluster and write_entry replaced by their contracts): existence is checked asking for a directory; exactly one cluster is allocated, as the start of a new chain and zero-filled (so the new directory ends at its first slot); the entry written into THIS directory has the alias from the existence check, the DIRECTORY attribute and the allocated cluster; then "." (pointing at the new directory's own cluster) and ".." (pointing at the parent's first cluster, 0 when the parent is the root, also on FAT32) are written into the NEW directory, both with the DIRECTORY attribute and the dot aliases; the directory returned is the new one; an allocation failure writes nothing, and an entry-write failure is returned
#[kani::proof]
#[kani::unwind(13)]
#[kani::stub(crate::dir::Dir::check_for_existence, stub_cfe_fresh)]
#[kani::stub(crate::dir::Dir::write_entry, stub_write_entry)]
#[kani::stub(crate::fs::FileSystem::alloc_cluster, stub_fs_alloc)]
fn create_dir_wiring_p1_f3() {
    create_dir_case(1, 3);
}

// @obl props=C03,C18 tier=quick fns=Dir::create_dir timeout=900
// @bound parent = the root directory of a FAT32 fixture; the write of the new entry fails (or the allocation fails); one concrete name; alias bytes and the allocated cluster symbolic
// @desc wiring of Dir::create_dir for a name that does not exist (real body; check_for_existence, FileSystem::alloc_cluster and write_entry replaced by their contracts): existence is checked asking for a directory; exactly one cluster is allocated, as the start of a new chain and zero-filled (so the new directory ends at its first slot); the entry written into THIS directory has the alias from the existence check, the DIRECTORY attribute and the allocated cluster; then "." (pointing at the new directory's own cluster) and ".." (pointing at the parent's first cluster, 0 when the parent is the root, also on FAT32) are written into the NEW directory, both with the DIRECTORY attribute and the dot aliases; the directory returned is the new one; an allocation failure writes nothing, and an entry-write failure is returned
#[kani::proof]
#[kani::unwind(13)]
#[kani::stub(crate::dir::Dir::check_for_existence, stub_cfe_fresh)]
#[kani::stub(crate::dir::Dir::write_entry, stub_write_entry)]
#[kani::stub(crate::fs::FileSystem::alloc_cluster, stub_fs_alloc)]
fn create_dir_wiring_p1_f0() {
    create_dir_case(1, 0);
}

// @obl props=C03,C18 tier=quick fns=Dir::create_dir timeout=900
// @bound parent = a FAT32 subdirectory with any first cluster; every write succeeds (or the allocation fails); one concrete name; alias bytes and the allocated cluster symbolic
// @desc wiring of Dir::create_dir for a name that does not exist (real body; check_for_existence, FileSystem::alloc_cluster and write_entry replaced by their contracts): existence is checked asking for a directory; exactly one cluster is allocated, as the start of a new chain and zero-filled (so the new directory ends at its first slot); the entry written into THIS directory has the alias from the existence check, the DIRECTORY attribute and the allocated cluster; then "." (pointing at the new directory's own cluster) and ".." (pointing at the parent's first cluster, 0 when the parent is the root, also on FAT32) are written into the NEW directory, both with the DIRECTORY attribute and the dot aliases; the directory returned is the new one; an allocation failure writes nothing, and an entry-write failure is returned
#[kani::proof]
#[kani::unwind(13)]
#[kani::stub(crate::dir::Dir::check_for_existence, stub_cfe_fresh)]
#[kani::stub(crate::dir::Dir::write_entry, stub_write_entry)]
#[kani::stub(crate::fs::FileSystem::alloc_cluster, stub_fs_alloc)]
fn create_dir_wiring_p2_f3() {
    create_dir_case(2, 3);
}

// @obl props=C03,C18 tier=quick fns=Dir::create_dir timeout=900
// @bound parent = a FAT32 subdirectory with any first cluster; the write of the new entry fails (or the allocation fails); one concrete name; alias bytes and the allocated cluster symbolic
// @desc wiring of Dir::create_dir for a name that does not exist (real body; check_for_existence, FileSystem::alloc_cluster and write_entry replaced by their contracts): existence is checked asking for a directory; exactly one cluster is allocated, as the start of a new chain and zero-filled (so the new directory ends at its first slot); the entry written into THIS directory has the alias from the existence check, the DIRECTORY attribute and the allocated cluster; then "." (pointing at the new directory's own cluster) and ".." (pointing at the parent's first cluster, 0 when the parent is the root, also on FAT32) are written into the NEW directory, both with the DIRECTORY attribute and the dot aliases; the directory returned is the new one; an allocation failure writes nothing, and an entry-write failure is returned
#[kani::proof]
#[kani::unwind(13)]
#[kani::stub(crate::dir::Dir::check_for_existence, stub_cfe_fresh)]
#[kani::stub(crate::dir::Dir::write_entry, stub_write_entry)]
#[kani::stub(crate::fs::FileSystem::alloc_cluster, stub_fs_alloc)]
fn create_dir_wiring_p2_f0() {
    create_dir_case(2, 0);
}

// @obl props=C03,C18 tier=quick fns=Dir::create_file timeout=900
// @bound root directory of a FAT16 fixture; one concrete name; alias bytes symbolic
// @desc wiring of Dir::create_file for a name that does not exist (real body; check_for_existence and write_entry replaced by their contracts): existence is checked asking for a file; no cluster is allocated; exactly one entry is written into THIS directory: alias from the existence check, no attribute bits, size 0, no first cluster; the File returned is empty, at offset 0, and bound to that entry (so later size / cluster / stamp updates go to it)
#[kani::proof]
#[kani::unwind(13)]
#[kani::stub(crate::dir::Dir::check_for_existence, stub_cfe_fresh)]
#[kani::stub(crate::dir::Dir::write_entry, stub_write_entry)]
#[kani::stub(crate::fs::FileSystem::alloc_cluster, stub_fs_alloc)]
fn create_file_wiring() {
    let fs = wiring_fs(0);
    let parent = fs.root_dir();
    let alias: [u8; 11] = kani::any();
    let fail: bool = kani::any();
    unsafe {
        G_CFE_ALIAS = alias;
        WR_FAIL_AT = if fail { 0 } else { 99 };
    }
    let r = parent.create_file("notes.text");
    assert!(unsafe { G_CFE_ISDIR } == Some(Some(false)));
    assert!(unsafe { G_ALLOC }.is_none());
    assert!(unsafe { WR_N } == 1);
    let log = unsafe { WR_LOG.clone() };
    let e0 = log[0].data.as_ref().unwrap();
    assert!(log[0].name_len == 10 && log[0].name0 == b'n' && log[0].dir_is_root);
    assert!(*e0.name() == alias && !e0.is_dir() && crate::dir_entry::verif_kani::d_attrs(e0) == 0);
    assert!(e0.size() == Some(0) && e0.first_cluster(fs.fat_type()).is_none());
    if fail {
        assert!(r.is_err());
    } else {
        let f = r.as_ref().unwrap();
        assert!(crate::file::verif_kani::file_cursor(f) == (None, None, 0));
        let ed = crate::file::verif_kani::file_entry(f).unwrap();
        assert!(crate::dir_entry::verif_kani::ed_pos(ed) == 0x4000 && !crate::dir_entry::verif_kani::ed_dirty(ed));
        assert!(*crate::dir_entry::verif_kani::ed_data(ed).name() == alias);
    }
    assert!(fs.disk.borrow().nlog == 0);
    kani::cover!(r.is_ok());
    core::mem::forget(r);
    core::mem::forget(parent);
    core::mem::forget(fs);
}
