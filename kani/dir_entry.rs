// Kani obligations for src/dir_entry.rs: 32-byte slot codecs, short-name decoding, entry editor, stamps.
// @needs fs
#![allow(dead_code, unused_imports, unused_variables, unused_mut)]
use super::*;
use crate::fs::verif_kani::{bpb_fat12, bpb_fat16, bpb_fat32, mk_fs_plain, opts};
use crate::fs::{FsStatusFlags, LossyOemCpConverter};
use crate::io::{Seek, SeekFrom};
use crate::time::{Time};
use crate::verif_common::*;

pub(crate) fn any_sfn_data() -> DirFileEntryData {
    DirFileEntryData {
        name: kani::any(),
        attrs: FileAttributes::from_bits_truncate(kani::any()),
        reserved_0: kani::any(),
        create_time_0: kani::any(),
        create_time_1: kani::any(),
        create_date: kani::any(),
        access_date: kani::any(),
        first_cluster_hi: kani::any(),
        modify_time: kani::any(),
        modify_date: kani::any(),
        first_cluster_lo: kani::any(),
        size: kani::any(),
    }
}

/// accessors for harness modules of other source files
pub(crate) fn ed_new(data: DirFileEntryData, pos: u64, dirty: bool) -> DirEntryEditor {
    DirEntryEditor { data, pos, dirty }
}
pub(crate) fn ed_data(e: &DirEntryEditor) -> &DirFileEntryData {
    &e.data
}
pub(crate) fn ed_dirty(e: &DirEntryEditor) -> bool {
    e.dirty
}
pub(crate) fn ed_pos(e: &DirEntryEditor) -> u64 {
    e.pos
}
pub(crate) fn d_created(d: &DirFileEntryData) -> crate::time::DateTime {
    d.created()
}
pub(crate) fn d_modified(d: &DirFileEntryData) -> crate::time::DateTime {
    d.modified()
}
pub(crate) fn d_accessed(d: &DirFileEntryData) -> crate::time::Date {
    d.accessed()
}
pub(crate) fn with_attrs(mut d: DirFileEntryData, bits: u8) -> DirFileEntryData {
    d.attrs = FileAttributes::from_bits_truncate(bits);
    d
}
pub(crate) fn d_size_raw(d: &DirFileEntryData) -> u32 {
    d.size
}
pub(crate) fn d_attrs(d: &DirFileEntryData) -> u8 {
    d.attrs.bits()
}
pub(crate) fn d_is_dir(d: &DirFileEntryData) -> bool {
    d.is_dir()
}

pub(crate) fn sfn_eq(a: &DirFileEntryData, b: &DirFileEntryData) -> bool {
    a.name == b.name
        && a.attrs == b.attrs
        && a.reserved_0 == b.reserved_0
        && a.create_time_0 == b.create_time_0
        && a.create_time_1 == b.create_time_1
        && a.create_date == b.create_date
        && a.access_date == b.access_date
        && a.first_cluster_hi == b.first_cluster_hi
        && a.modify_time == b.modify_time
        && a.modify_date == b.modify_date
        && a.first_cluster_lo == b.first_cluster_lo
        && a.size == b.size
}

/// layout of a short entry, from the FAT specification's directory-entry table
pub(crate) fn expect_sfn(b: &[u8], o: usize, d: &DirFileEntryData) {
    let mut i = 0;
    while i < 11 {
        assert!(d.name[i] == b[o + i]);
        i += 1;
    }
    assert!(d.attrs.bits() == b[o + 11] & 0x3F);
    assert!(d.reserved_0 == b[o + 12]);
    assert!(d.create_time_0 == b[o + 13]);
    assert!(d.create_time_1 == le16(b, o + 14));
    assert!(d.create_date == le16(b, o + 16));
    assert!(d.access_date == le16(b, o + 18));
    assert!(d.first_cluster_hi == le16(b, o + 20));
    assert!(d.modify_time == le16(b, o + 22));
    assert!(d.modify_date == le16(b, o + 24));
    assert!(d.first_cluster_lo == le16(b, o + 26));
    assert!(d.size == le32(b, o + 28));
}

// @obl props=C04,C08,C17,C18 tier=quick fns=DirEntryData::deserialize,DirFileEntryData::serialize,DirLfnEntryData::serialize,DirEntryData::serialize
// @desc forall 32 bytes: deserialize never panics, consumes 32 bytes; long-name slot iff (attr & 0x0F) == 0x0F; short slot fields sit at name 0, attr 11 (6 defined bits), nt 12, ctime 13/14, cdate 16, adate 18, cluster hi 20, mtime 22, mdate 24, cluster lo 26, size 28; long slot: order 0, units at 1/14/28, type 12, checksum 13, reserved 26; serialize(deserialize(b)) = b except the two undefined attribute bits
#[kani::proof]
#[kani::unwind(14)]
fn codec_dir_slot() {
    let mut dev = MemDevE::<32>::any();
    let b = dev.data;
    let r = DirEntryData::deserialize(&mut dev);
    assert!(r.is_ok());
    assert!(dev.pos == 32);
    let e = r.unwrap();
    let is_lfn = b[11] & 0x0F == 0x0F;
    let mut out = MemDevE::<32>::zeroed();
    match &e {
        DirEntryData::File(d) => {
            assert!(!is_lfn);
            expect_sfn(&b, 0, d);
        }
        DirEntryData::Lfn(l) => {
            assert!(is_lfn);
            assert!(l.order == b[0] && l.attrs.bits() == b[11] & 0x3F && l.entry_type == b[12] && l.checksum == b[13]);
            assert!(l.reserved_0 == le16(&b, 26));
            let k: usize = kani::any();
            kani::assume(k < 13);
            let off = if k < 5 { 1 + 2 * k } else if k < 11 { 14 + 2 * (k - 5) } else { 28 + 2 * (k - 11) };
            let unit = if k < 5 { l.name_0[k] } else if k < 11 { l.name_1[k - 5] } else { l.name_2[k - 11] };
            assert!(unit == le16(&b, off));
        }
    }
    assert!(e.serialize(&mut out).is_ok());
    assert!(out.pos == 32);
    let i: usize = kani::any();
    kani::assume(i < 32);
    if i == 11 {
        assert!(out.data[i] == b[i] & 0x3F);
    } else {
        assert!(out.data[i] == b[i]);
    }
    assert!(e.is_deleted() == (b[0] == 0xE5));
    assert!(e.is_end() == (b[0] == 0));
    kani::cover!(is_lfn);
    kani::cover!(!is_lfn && b[0] == 0xE5);
}

// @obl props=C04,C18 tier=quick fns=DirFileEntryData::serialize
// @desc forall short-entry values: serialize writes exactly 32 bytes equal to the specification layout of its fields (timestamps at 13,14,16,18,22,24; size at 28; cluster hi/lo at 20/26)
#[kani::proof]
#[kani::unwind(14)]
fn sfn_serialize_layout() {
    let d = any_sfn_data();
    let mut out = MemDev::<32>::any();
    assert!(d.serialize(&mut out).is_ok());
    assert!(out.pos == 32);
    let bytes = out.data;
    expect_sfn(&bytes, 0, &d);
    assert!(bytes[11] == d.attrs.bits());
    kani::cover!(d.size == u32::MAX);
}

pub(crate) fn deser_case(left: u64, k: usize) {
    let mut dev = NdDev::fault_at(k);
    let r = {
        let mut s: crate::fs::DiskSlice<&mut NdDev, NdDev> = crate::fs::DiskSlice::new(4096, 64, 1, &mut dev);
        if s.seek(SeekFrom::Start(64 - left)).is_err() {
            kani::assume(false); // DiskSlice::seek issues no device call and 64 - left <= size
        }
        DirEntryData::deserialize(&mut s)
    };
    if dev.fault_fired {
        match r {
            Err(Error::Io(e)) => assert!(e.tag == dev.first_tag),
            _ => assert!(false, "storage error swallowed or masked by DirEntryData::deserialize"),
        }
    } else if left == 0 {
        match r {
            Ok(e) => assert!(e.is_end()),
            Err(_) => assert!(false),
        }
    } else if left < 11 {
        // the stream ends inside the name field: the code treats it like an end at the slot start
        // (directory sizes are multiples of 32, so this is not reachable on a volume)
        match r {
            Ok(e) => assert!(e.is_end()),
            Err(_) => assert!(false),
        }
    } else if left < 32 {
        // a slot cut after the name is an error, not an end marker
        assert!(matches!(r, Err(Error::UnexpectedEof)));
    } else {
        assert!(r.is_ok());
    }
    if k != usize::MAX && k <= 1 {
        assert!(dev.fault_fired);
    }
    kani::cover!(true);
}

// @obl props=C09,C17 tier=quick fns=DirEntryData::deserialize
// @desc over a slice of the device (any content) with 0, 5, 11, 20, 31 or 32 bytes left: end-of-stream exactly at a slot start yields the end-of-directory entry; end-of-stream after the name field is returned as Err(UnexpectedEof); never a panic
#[kani::proof]
#[kani::unwind(14)]
fn deserialize_eof() {
    let sel: u8 = kani::any();
    match sel % 6 {
        0 => deser_case(0, usize::MAX),
        1 => deser_case(5, usize::MAX),
        2 => deser_case(11, usize::MAX),
        3 => deser_case(20, usize::MAX),
        4 => deser_case(31, usize::MAX),
        _ => deser_case(32, usize::MAX),
    }
    kani::cover!(true);
}

// @obl props=C08,C17 tier=quick fns=ShortName::new,ShortName::as_bytes
// @desc forall 11 raw bytes: ShortName::new never indexes out of range; result = basename without trailing spaces, then '.' + extension without trailing spaces iff the extension is non-blank; length <= 12; a leading 0x05 becomes 0xE5 and no other byte is altered
#[kani::proof]
#[kani::unwind(13)]
fn shortname_new() {
    let raw: [u8; 11] = kani::any();
    let sn = ShortName::new(&raw);
    let out = sn.as_bytes();
    // independent computation of the component lengths
    let mut nl = 8;
    while nl > 0 && raw[nl - 1] == b' ' {
        nl -= 1;
    }
    let mut el = 3;
    while el > 0 && raw[8 + el - 1] == b' ' {
        el -= 1;
    }
    let total = if el > 0 { nl + 1 + el } else { nl };
    assert!(out.len() == total && total <= 12);
    kani::cover!(total == 12 && raw[0] == 0x05);
    kani::cover!(total == 0);
    kani::cover!(nl == 0 && el == 3);
    let i: usize = kani::any();
    kani::assume(i < total);
    let want = if i < nl {
        if i == 0 && raw[0] == 0x05 { 0xE5 } else { raw[i] }
    } else if i == nl {
        if i == 0 && b'.' == 0x05 { 0xE5 } else { b'.' }
    } else {
        raw[8 + (i - nl - 1)]
    };
    assert!(out[i] == want);
}

// @obl props=C08 tier=quick fns=DirFileEntryData::lowercase_name,DirFileEntryData::lowercase_basename,DirFileEntryData::lowercase_ext
// @desc forall raw names and NT flag bytes: bit 3 lowers ASCII letters of bytes 0-7 only, bit 4 lowers bytes 8-10 only, every other byte (including OEM bytes >= 0x80) is untouched; result is ShortName::new of that
#[cfg(feature = "alloc")]
#[kani::proof]
#[kani::unwind(13)]
fn lowercase_name_flags() {
    let mut d = any_sfn_data();
    let mut want = d.name;
    let mut i = 0;
    while i < 11 {
        let lower = if i < 8 { d.reserved_0 & 0x08 != 0 } else { d.reserved_0 & 0x10 != 0 };
        if lower && want[i] >= b'A' && want[i] <= b'Z' {
            want[i] += 32;
        }
        i += 1;
    }
    let a = d.lowercase_name();
    let b = ShortName::new(&want);
    assert!(a.len == b.len);
    let k: usize = kani::any();
    kani::assume(k < a.len as usize);
    assert!(a.name[k] == b.name[k]);
    kani::cover!(d.reserved_0 & 0x18 == 0x08 && a.len == 12);
}

// @obl props=C04,C08 tier=quick fns=DirFileEntryData::first_cluster,DirFileEntryData::set_first_cluster
// @desc forall hi, lo, FAT type: first_cluster = (hi<<16 | lo) on FAT32 and lo alone on FAT12/16 (high word ignored), 0 -> None; set_first_cluster then first_cluster is the identity for every cluster number valid for the type; on FAT12/16 the high word is left untouched
#[kani::proof]
fn first_cluster_codec() {
    let mut d = any_sfn_data();
    let sel: u8 = kani::any();
    let ft = match sel % 3 {
        0 => FatType::Fat12,
        1 => FatType::Fat16,
        _ => FatType::Fat32,
    };
    let n = if ft == FatType::Fat32 { ((d.first_cluster_hi as u32) << 16) | d.first_cluster_lo as u32 } else { d.first_cluster_lo as u32 };
    assert!(d.first_cluster(ft) == if n == 0 { None } else { Some(n) });
    let hi0 = d.first_cluster_hi;
    let c: Option<u32> = if kani::any() { Some(kani::any()) } else { None };
    if let Some(v) = c {
        kani::assume(v != 0 && (ft == FatType::Fat32 || v <= 0xFFFF));
    }
    d.set_first_cluster(c, ft);
    assert!(d.first_cluster(ft) == c);
    if ft != FatType::Fat32 {
        assert!(d.first_cluster_hi == hi0);
    }
    kani::cover!(ft == FatType::Fat32 && c == Some(0x0FFF_FFF6));
    kani::cover!(c.is_none());
}

// @obl props=C18 tier=quick fns=DirFileEntryData::set_created,DirFileEntryData::created,DirFileEntryData::set_modified,DirFileEntryData::modified,DirFileEntryData::set_accessed,DirFileEntryData::accessed
// @desc forall entries and valid DateTime: set_created/created round-trips to 10 ms, set_modified/modified to 2 s (millis 0), set_accessed/accessed exactly (one day); each setter changes only its own fields (the other two stamps, name, attributes, size, cluster are untouched)
#[kani::proof]
fn stamp_fields() {
    let d0 = any_sfn_data();
    let t = SymTime::any().dt;
    let mut d = d0.clone();
    d.set_created(t);
    let c = d.created();
    assert!(c.date == t.date);
    assert!(c.time == Time { hour: t.time.hour, min: t.time.min, sec: t.time.sec, millis: t.time.millis / 10 * 10 });
    let mut x = d.clone();
    x.create_time_0 = d0.create_time_0;
    x.create_time_1 = d0.create_time_1;
    x.create_date = d0.create_date;
    assert!(sfn_eq(&x, &d0));

    let mut d = d0.clone();
    d.set_modified(t);
    let m = d.modified();
    assert!(m.date == t.date);
    assert!(m.time == Time { hour: t.time.hour, min: t.time.min, sec: t.time.sec - t.time.sec % 2, millis: 0 });
    let mut x = d.clone();
    x.modify_time = d0.modify_time;
    x.modify_date = d0.modify_date;
    assert!(sfn_eq(&x, &d0));

    let mut d = d0.clone();
    d.set_accessed(t.date);
    assert!(d.accessed() == t.date);
    let mut x = d.clone();
    x.access_date = d0.access_date;
    assert!(sfn_eq(&x, &d0));
    kani::cover!(t.time.sec == 59 && t.time.millis == 999);
}

// @obl props=C18 tier=quick fns=DirFileEntryData::renamed
// @desc forall entries and new 11-byte names: renamed() differs from the original in the name only (timestamps, attributes, size, first cluster preserved by a rename)
#[kani::proof]
fn renamed_keeps_body() {
    let d = any_sfn_data();
    let n: [u8; 11] = kani::any();
    let r = d.renamed(n);
    assert!(r.name == n);
    let mut x = r.clone();
    x.name = d.name;
    assert!(sfn_eq(&x, &d));
    kani::cover!(n != d.name);
}

// @obl props=C04,C18 tier=quick fns=DirEntryEditor::set_size,DirEntryEditor::set_first_cluster,DirEntryEditor::set_created,DirEntryEditor::set_accessed,DirEntryEditor::set_modified
// @desc forall editors and arguments: each setter stores the value (to the field's resolution); dirty is set whenever the stored bytes change (an unchanged entry with dirty = false stays clean only if nothing changed), never cleared; set_size is ignored for directories; pos never changes
#[kani::proof]
fn editor_setters() {
    let d0 = any_sfn_data();
    let dirty0: bool = kani::any();
    let pos: u64 = kani::any();
    let mk = || DirEntryEditor { data: d0.clone(), pos, dirty: dirty0 };
    let t = SymTime::any().dt;

    let mut e = mk();
    let sz: u32 = kani::any();
    e.set_size(sz);
    if d0.is_dir() {
        assert!(sfn_eq(&e.data, &d0) && e.dirty == dirty0);
    } else {
        assert!(e.data.size == sz && e.dirty == (dirty0 || sz != d0.size));
    }
    assert!(e.pos == pos);

    let mut e = mk();
    e.set_modified(t);
    assert!(e.data.modified().date == t.date && e.data.modified().time.sec == t.time.sec - t.time.sec % 2);
    // the editor compares at full resolution: dirty iff the requested value differs from the decoded stored one
    assert!(e.dirty == (dirty0 || t != d0.modified()));
    assert!(e.dirty || sfn_eq(&e.data, &d0));

    let mut e = mk();
    e.set_accessed(t.date);
    assert!(e.data.accessed() == t.date);
    assert!(e.dirty == (dirty0 || t.date != d0.accessed()));
    assert!(e.dirty || sfn_eq(&e.data, &d0));

    let mut e = mk();
    e.set_created(t);
    assert!(e.data.created().date == t.date && e.data.created().time.millis == t.time.millis / 10 * 10);
    assert!(e.dirty || sfn_eq(&e.data, &d0));
    assert!(!dirty0 || e.dirty);

    let mut e = mk();
    let ft = if kani::any() { FatType::Fat32 } else { FatType::Fat16 };
    let c: Option<u32> = if kani::any() { Some(kani::any()) } else { None };
    if let Some(v) = c {
        kani::assume(v != 0 && (ft == FatType::Fat32 || v <= 0xFFFF));
    }
    e.set_first_cluster(c, ft);
    assert!(e.data.first_cluster(ft) == c);
    assert!(e.dirty == (dirty0 || c != d0.first_cluster(ft)));
    kani::cover!(!dirty0 && e.dirty);
    kani::cover!(!dirty0 && !e.dirty);
}

// @obl props=C04,C11,C13,C14 tier=quick fns=DirEntryEditor::flush,DirEntryEditor::write
// @desc forall editors: flush with dirty = true seeks to the entry position and writes exactly the 32 bytes layout_sfn(data) there (nothing before or after), then dirty = false; with dirty = false it issues no device call at all
#[kani::proof]
#[kani::unwind(14)]
fn editor_flush_contract() {
    let d = any_sfn_data();
    let pos: u64 = kani::any();
    kani::assume(pos <= 32);
    let dirty: bool = kani::any();
    let mut e = DirEntryEditor { data: d.clone(), pos, dirty };
    let fill: u8 = kani::any();
    let mut dev = MemDev::<96>::from([fill; 96]);
    dev.pos = 77;
    let fs = mk_fs_plain(dev, bpb_fat16(), FsStatusFlags::decode(0), opts(false, SymTime::any()));
    assert!(e.flush(&fs).is_ok());
    assert!(!e.dirty && e.pos == pos);
    {
        let dd = fs.disk.borrow();
        if dirty {
            expect_sfn(&dd.data, pos as usize, &d);
            let k: usize = kani::any();
            kani::assume(k < 96 && (k < pos as usize || k >= pos as usize + 32));
            assert!(dd.data[k] == fill);
            assert!(dd.pos == pos as usize + 32 && dd.flushes == 0);
        } else {
            assert!(dd.writes == 0 && dd.pos == 77);
            let k: usize = kani::any();
            kani::assume(k < 96);
            assert!(dd.data[k] == fill);
        }
    }
    kani::cover!(dirty && pos == 32);
    kani::cover!(!dirty);
    core::mem::forget(fs);
}
