// Kani obligations for src/file.rs: single-call contracts of File::{read, write, seek, truncate, flush, drop}
// from ANY state satisfying the type invariant inv_file (DESIGN.md C02), over the nondeterministic device.
// @needs fs,dir_entry
#![allow(dead_code, unused_imports, unused_variables, unused_mut, static_mut_refs)]
use super::*;
use crate::boot_sector::BiosParameterBlock;
use crate::dir_entry::verif_kani::{any_sfn_data, d_accessed, d_created, d_modified, ed_data, ed_dirty, ed_new, ed_pos};
use crate::dir_entry::{DirEntryEditor, DirFileEntryData};
use crate::fs::verif_kani::{bpb_fat12, bpb_fat16, bpb_fat32, bpb_fat32_huge, cur_flags, mk_fs_plain, opts, stub_alloc_cluster, stub_no_zeros, stub_zeros_contract};
use crate::fs::{FatType, FsStatusFlags, LossyOemCpConverter};
use crate::verif_common::*;

type Fs = FileSystem<NdDev, SymTime, LossyOemCpConverter>;

// geometry of the volume under test, for the device-content predicate (set once per harness)
static mut G_FT: u8 = 0; // 12, 16, 32
static mut G_FAT_BEGIN: u64 = 0;
static mut G_FAT_END: u64 = 0;
static mut G_MAX: u32 = 0; // total_clusters + 2

/// "cluster pointers are valid" (C02/C17 precondition) as a predicate on what the device returns for reads
/// inside the FAT area: the entry read is end-of-chain/bad/free or a cluster number in [2, total+2).
fn fat_read_ok(pos: u64, b: [u8; 4], n: usize) -> bool {
    unsafe {
        if pos < G_FAT_BEGIN || pos >= G_FAT_END {
            return true;
        }
        let off = pos - G_FAT_BEGIN;
        let v: u32 = match G_FT {
            12 => {
                let p = (b[0] as u32) | ((b[1] as u32) << 8);
                if n != 2 {
                    return true;
                }
                if off % 3 == 0 { p & 0xFFF } else { p >> 4 }
            }
            16 => (b[0] as u32) | ((b[1] as u32) << 8),
            _ => le32(&b, 0) & 0x0FFF_FFFF,
        };
        let top = match G_FT {
            12 => 0xFF7,
            16 => 0xFFF7,
            _ => 0x0FFF_FFF7,
        };
        v == 0 || v >= top || (v >= 2 && v < G_MAX)
    }
}

/// what the most recent FAT entry read decodes to (None = chain ends)
fn last_fat_next(d: &NdDev, cluster: u32) -> Option<u32> {
    unsafe {
        let b = d.last_read;
        let (v, top) = match G_FT {
            12 => {
                let p = (b[0] as u32) | ((b[1] as u32) << 8);
                (if cluster & 1 == 0 { p & 0xFFF } else { p >> 4 }, 0xFF7)
            }
            16 => ((b[0] as u32) | ((b[1] as u32) << 8), 0xFFF7),
            _ => (le32(&b, 0) & 0x0FFF_FFFF, 0x0FFF_FFF7),
        };
        if v == 0 || v >= top {
            None
        } else {
            Some(v)
        }
    }
}

fn setup(bpb: &BiosParameterBlock, dev: &mut NdDev) {
    let ft = FatType::from_clusters(bpb.total_clusters());
    unsafe {
        G_FT = match ft {
            FatType::Fat12 => 12,
            FatType::Fat16 => 16,
            FatType::Fat32 => 32,
        };
        G_FAT_BEGIN = bpb.reserved_sectors as u64 * bpb.bytes_per_sector as u64;
        G_FAT_END = G_FAT_BEGIN + bpb.sectors_per_fat() as u64 * bpb.bytes_per_sector as u64;
        G_MAX = bpb.total_clusters() + 2;
    }
    dev.small_read_ok = Some(fat_read_ok);
    unsafe {
        dev.track_lo = G_FAT_BEGIN;
        dev.track_hi = G_FAT_END;
    }
}

pub(crate) struct FileState {
    pub first: Option<u32>,
    pub current: Option<u32>,
    pub offset: u32,
    pub data: Option<DirFileEntryData>,
    pub pos: u64,
    pub dirty: bool,
}

/// any state satisfying inv_file for a volume with `max` = total_clusters + 2 and cluster size cs
pub(crate) fn any_file_state(max: u32, has_entry: bool, is_dir: bool) -> FileState {
    let first: Option<u32> = if kani::any() { Some(kani::any()) } else { None };
    let current: Option<u32> = if kani::any() { Some(kani::any()) } else { None };
    let offset: u32 = kani::any();
    if let Some(c) = first {
        kani::assume(c >= 2 && c < max);
    }
    if let Some(c) = current {
        kani::assume(c >= 2 && c < max);
    }
    kani::assume(current.is_none() == (offset == 0));
    kani::assume(first.is_some() || offset == 0);
    let data = if has_entry {
        let mut d = any_sfn_data();
        // the attribute byte is concrete so that `is_dir()` folds (it decides whether a new cluster is zeroed)
        d = crate::dir_entry::verif_kani::with_attrs(d, if is_dir { 0x10 } else { 0x20 });
        if is_dir {
            kani::assume(d.is_dir());
            // directories have no size field; the specification limits them to 65536 entries (2 MiB)
            kani::assume(offset <= 0x0020_0000);
        } else {
            kani::assume(!d.is_dir());
            kani::assume(offset <= d.size().unwrap());
            kani::assume(first.is_some() || d.size().unwrap() == 0);
        }
        Some(d)
    } else {
        kani::assume(offset <= 0x0020_0000);
        None
    };
    FileState { first, current, offset, data, pos: kani::any(), dirty: kani::any() }
}

/// accessors for harness modules of other source files
pub(crate) fn file_cursor<IO: ReadWriteSeek, TP, OCC>(f: &File<IO, TP, OCC>) -> (Option<u32>, Option<u32>, u32) {
    (f.first_cluster, f.current_cluster, f.offset)
}
pub(crate) fn file_entry<'b, IO: ReadWriteSeek, TP, OCC>(f: &'b File<IO, TP, OCC>) -> Option<&'b DirEntryEditor> {
    f.entry.as_ref()
}

fn mk_file<'a>(fs: &'a Fs, st: &FileState) -> File<'a, NdDev, SymTime, LossyOemCpConverter> {
    File {
        first_cluster: st.first,
        current_cluster: st.current,
        offset: st.offset,
        entry: st.data.clone().map(|d| ed_new(d, st.pos, st.dirty)),
        fs,
    }
}

const BUFN: usize = 8;

fn fake_buf<'a>(backing: &'a mut [u8; BUFN], len: usize) -> &'a mut [u8] {
    &mut backing[..len]
}

fn addr(bpb: &BiosParameterBlock, c: u32, off_in: u32) -> u64 {
    (bpb.first_data_sector() as u64 + (c as u64 - 2) * bpb.sectors_per_cluster as u64) * bpb.bytes_per_sector as u64 + off_in as u64
}

fn read_contract(bpb: BiosParameterBlock, is_dir: bool, has_entry: bool) {
    let cs = bpb.cluster_size();
    let max = bpb.total_clusters() + 2;
    let mut dev = NdDev::read_only();
    setup(&bpb, &mut dev);
    let update_acc: bool = kani::any();
    let tp = SymTime::fixed();
    let fs = mk_fs_plain(dev, bpb.clone(), FsStatusFlags::decode(0), opts(update_acc, tp));
    let st = any_file_state(max, has_entry, is_dir);
    let mut f = mk_file(&fs, &st);
    let mut backing = [0u8; 8];
    let len: usize = kani::any();
    kani::assume(len <= BUFN);
    let buf = fake_buf(&mut backing, len);
    let r = f.read(buf);
    assert!(r.is_ok());
    let n = r.unwrap();
    let off_in = st.offset % cs;
    let left_cluster = (cs - off_in) as u64;
    let left_file: u64 = match &st.data {
        Some(d) if !is_dir => (d.size().unwrap() - st.offset) as u64,
        _ => left_cluster,
    };
    let maxn = (len as u64).min(left_cluster).min(left_file);
    assert!(n as u64 <= maxn);
    {
        let d = fs.disk.borrow();
        // which cluster holds the byte at `offset`
        let cluster: Option<u32> = if off_in == 0 {
            match st.current {
                None => st.first,
                Some(c) => last_fat_next(&d, c),
            }
        } else {
            st.current
        };
        if n > 0 {
            let c = cluster.unwrap();
            let a = addr(&bpb, c, off_in);
            // the last two device calls are the data seek + read at the specified address, of exactly maxn bytes
            assert!(d.nlog >= 2);
            assert!(d.log[d.nlog - 2] == Op::Seek(a));
            assert!(d.log[d.nlog - 1] == Op::Read(a, maxn as usize));
            assert!(f.offset == st.offset + n as u32);
            assert!(f.current_cluster == Some(c));
        } else {
            assert!(f.offset == st.offset && f.current_cluster == st.current);
        }
        if cluster.is_none() || maxn == 0 {
            assert!(n == 0);
        }
        assert!(d.nwrites == 0 && !d.overflow);
    }
    assert!(f.first_cluster == st.first);
    // inv_file is re-established
    assert!(f.current_cluster.is_none() == (f.offset == 0));
    if let (Some(e), Some(d0)) = (&f.entry, &st.data) {
        if !is_dir {
            assert!(f.offset <= ed_data(e).size().unwrap());
        }
        // stamping rule: the access date is touched only with the option on and only by a successful read
        if update_acc && n > 0 {
            assert!(d_accessed(ed_data(e)) == tp.dt.date);
        } else {
            assert!(ed_dirty(e) == st.dirty);
            assert!(d_accessed(ed_data(e)) == d_accessed(d0));
        }
        assert!(d_created(ed_data(e)) == d_created(d0) && d_modified(ed_data(e)) == d_modified(d0));
        assert!(ed_data(e).size() == d0.size() && ed_pos(e) == st.pos);
    }
    kani::cover!(n > 0 && off_in == 0 && st.current.is_some());
    kani::cover!(n > 0 && off_in != 0 && (n as u64) < len as u64);
    kani::cover!(n == 0 && len > 0);
    core::mem::forget(f);
    core::mem::forget(fs);
}

// @obl props=C02,C08,C11,C13,C18 tier=quick fns=File::read,File::bytes_left_in_file,FileSystem::cluster_iter,ClusterIterator::next,FileSystem::offset_from_cluster
// @desc FAT12 fixture (512-byte clusters), regular file, from ANY inv_file state, every buffer length up to 8 bytes (the cursor is fully symbolic, so each clamp - end of cluster, end of file, 4 GiB limit - is exercised on both sides), every device content with valid cluster pointers, write-forbidden device: read returns Ok(n), n <= min(len, bytes left in cluster, bytes left in file); n > 0 => exactly one data read of that many bytes at (first_data + (c-2)*spc)*bps + offset%cs where c is the current cluster or, at a cluster boundary, the successor the table returned; offset += n, current = c; n = 0 leaves the cursor; never writes; access date only with the option on; other stamps, size untouched; inv_file preserved
#[kani::proof]
#[kani::unwind(10)]
fn read_contract_fat12() {
    read_contract(bpb_fat12(), false, true);
}

// @obl props=C02,C08,C11,C13,C18 tier=quick fns=File::read,File::bytes_left_in_file,FileSystem::cluster_iter,ClusterIterator::next,FileSystem::offset_from_cluster
// @desc FAT16 fixture (2048-byte clusters), regular file: contract of read_contract_fat12
#[kani::proof]
#[kani::unwind(10)]
fn read_contract_fat16() {
    read_contract(bpb_fat16(), false, true);
}

// @obl props=C02,C08,C11,C13,C18,C20 tier=quick fns=File::read,File::bytes_left_in_file,FileSystem::cluster_iter,ClusterIterator::next,FileSystem::offset_from_cluster
// @desc FAT32 fixture (4096-byte clusters), regular file: contract of read_contract_fat12
#[kani::proof]
#[kani::unwind(10)]
fn read_contract_fat32() {
    read_contract(bpb_fat32(), false, true);
}

// @obl props=C02,C11,C13,C20 tier=quick fns=File::read,FileSystem::offset_from_cluster
// @desc 2^32-1 sectors x 4096 bytes, 64 KiB clusters (addresses above 2^43): contract of read_contract_fat12, exact 64-bit device offsets for every cluster including the last
#[kani::proof]
#[kani::unwind(10)]
fn read_contract_huge() {
    read_contract(bpb_fat32_huge(), false, true);
}

// @obl props=C02,C13,C17 tier=quick fns=File::read
// @desc FAT32 fixture, directory stream (no size field, with or without entry = root): reads are limited by the cluster only and end when the chain ends; same address contract; never writes
#[kani::proof]
#[kani::unwind(10)]
fn read_contract_dir() {
    read_contract(bpb_fat32(), true, kani::any());
}

/// case 0: cursor inside a cluster; 1: at a cluster boundary with a current cluster (successor from the table or
/// allocation); 2: cursor at 0 (first cluster or first allocation)
fn write_contract(bpb: BiosParameterBlock, is_dir: bool, case: u8) {
    let cs = bpb.cluster_size();
    let total = bpb.total_clusters();
    let max = total + 2;
    let mut dev = NdDev::new();
    setup(&bpb, &mut dev);
    // fixed provider value here (2021-07-09 13:47:33.987); the stamping arithmetic for EVERY provider value is
    // the separate obligation stamp_after_write
    let tp = SymTime::fixed();
    let was_dirty: bool = kani::any();
    let fs = mk_fs_plain(dev, bpb.clone(), FsStatusFlags { dirty: was_dirty, io_error: false }, opts(false, tp));
    let st = any_file_state(max, true, is_dir);
    match case {
        0 => kani::assume(st.offset % cs != 0),
        1 => kani::assume(st.offset % cs == 0 && st.current.is_some()),
        _ => kani::assume(st.current.is_none()),
    }
    let mut f = mk_file(&fs, &st);
    let mut backing = [0u8; 8];
    let len: usize = kani::any();
    kani::assume(len <= BUFN);
    let buf = fake_buf(&mut backing, len);
    let r = f.write(buf);
    let off_in = st.offset % cs;
    let maxn = (len as u64).min((cs - off_in) as u64).min((u32::MAX - st.offset) as u64);
    let r_is_err = r.is_err();
    match r {
        Ok(n) => {
            assert!(n as u64 <= maxn);
            let d = fs.disk.borrow();
            if maxn == 0 {
                assert!(n == 0 && d.nlog == 0 && f.offset == st.offset);
            } else {
                // the volume was marked dirty before anything else was touched
                assert!(cur_flags(&fs).dirty);
                if !was_dirty {
                    assert!(d.log[0] == Op::Seek(0x25) || d.log[0] == Op::Seek(0x41));
                    assert!(matches!(d.log[1], Op::Write(_, 1)));
                }
                // last two device calls: the data seek + write, at the address of the byte at `offset` in the
                // cluster the cursor ends up in (the device writes the whole request here, so n = maxn > 0)
                assert!(d.nlog >= 2 && !d.overflow);
                assert!(n as u64 == maxn);
                let c = match f.current_cluster {
                    Some(c) => c,
                    None => {
                        assert!(false);
                        2
                    }
                };
                assert!(c >= 2 && c < max);
                let a = addr(&bpb, c, off_in);
                assert!(d.log[d.nlog - 2] == Op::Seek(a));
                assert!(d.log[d.nlog - 1] == Op::Write(a, maxn as usize));
                // ... and that cluster is the file's: the current one, its successor in the table, the first one,
                // or (only when the chain has ended) a freshly allocated one
                if off_in != 0 {
                    assert!(Some(c) == st.current);
                } else if st.current.is_none() {
                    if st.first.is_some() {
                        assert!(Some(c) == st.first);
                    }
                } else if let Some(nx) = last_fat_next(&d, st.current.unwrap()) {
                    assert!(c == nx);
                }
                if n > 0 {
                    assert!(f.offset == st.offset + n as u32);
                    assert!(f.current_cluster == Some(c));
                    let e = f.entry.as_ref().unwrap();
                    let d0 = st.data.as_ref().unwrap();
                    if !is_dir {
                        assert!(ed_data(e).size() == Some(d0.size().unwrap().max(f.offset)));
                    }
                    // stamping: modification time := provider's value (2 s resolution); created / accessed untouched
                    let m = d_modified(ed_data(e));
                    assert!(m.date == tp.dt.date && m.time.hour == tp.dt.time.hour && m.time.min == tp.dt.time.min);
                    assert!(m.time.sec == tp.dt.time.sec - tp.dt.time.sec % 2);
                    assert!(d_created(ed_data(e)) == d_created(d0) && d_accessed(ed_data(e)) == d_accessed(d0));
                    if st.first.is_none() {
                        assert!(f.first_cluster == Some(c));
                        assert!(ed_data(e).first_cluster(fs.fat_type()) == Some(c));
                    } else {
                        assert!(f.first_cluster == st.first);
                    }
                } else {
                    assert!(f.offset == st.offset);
                }
            }
            assert!(f.current_cluster.is_none() == (f.offset == 0));
            kani::cover!(n > 0);
        }
        Err(e) => {
            // no faults injected: the only error is the allocator's
            assert!(matches!(e, Error::NotEnoughSpace));
            assert!(f.offset == st.offset && f.current_cluster == st.current && f.first_cluster == st.first);
        }
    }
    kani::cover!(r_is_err || case == 0);
    core::mem::forget(f);
    core::mem::forget(fs);
}

// @obl props=C02,C03,C11,C12,C14,C18 tier=quick fns=File::write,File::update_dir_entry_after_write,File::set_first_cluster,FileSystem::alloc_cluster,FileSystem::set_dirty_flag timeout=900
// @bound bounded: buffer length <= 8 (cursor, sizes, cluster numbers and device content fully symbolic)
// @desc FAT12 fixture, regular file, ANY inv_file state with the cursor inside a cluster, every buffer length up to 8, table::alloc_cluster replaced by its contract: n <= min(len, bytes left in cluster, 2^32-1 - offset); the dirty bit is set (and written if it was clear) before anything else; exactly one data write of min(..) bytes at the address of byte `offset` in the file's current cluster / its successor / the first cluster / a freshly allocated cluster - written straight to the device (no buffering); offset += n; size = max(size, offset); first_cluster set on first allocation; modified := provider time (2 s), created/accessed untouched; NotEnoughSpace leaves the cursor alone
#[kani::proof]
#[kani::unwind(12)]
#[kani::stub(crate::table::alloc_cluster, stub_alloc_cluster)]
#[kani::stub(crate::fs::write_zeros, stub_no_zeros)]
fn write_contract_fat12_c0() {
    write_contract(bpb_fat12(), false, 0);
}

// @obl props=C02,C03,C11,C12,C14,C18 tier=thorough fns=File::write,File::update_dir_entry_after_write,File::set_first_cluster,FileSystem::alloc_cluster,FileSystem::set_dirty_flag timeout=3000
// @bound bounded: buffer length <= 8 (cursor, sizes, cluster numbers and device content fully symbolic)
// @desc FAT12 fixture, regular file, ANY inv_file state with the cursor on a cluster boundary, every buffer length up to 8, table::alloc_cluster replaced by its contract: n <= min(len, bytes left in cluster, 2^32-1 - offset); the dirty bit is set (and written if it was clear) before anything else; exactly one data write of min(..) bytes at the address of byte `offset` in the file's current cluster / its successor / the first cluster / a freshly allocated cluster - written straight to the device (no buffering); offset += n; size = max(size, offset); first_cluster set on first allocation; modified := provider time (2 s), created/accessed untouched; NotEnoughSpace leaves the cursor alone
#[kani::proof]
#[kani::unwind(12)]
#[kani::stub(crate::table::alloc_cluster, stub_alloc_cluster)]
#[kani::stub(crate::fs::write_zeros, stub_no_zeros)]
fn write_contract_fat12_c1() {
    write_contract(bpb_fat12(), false, 1);
}

// @obl props=C02,C03,C11,C12,C14,C18 tier=thorough fns=File::write,File::update_dir_entry_after_write,File::set_first_cluster,FileSystem::alloc_cluster,FileSystem::set_dirty_flag timeout=3000
// @bound bounded: buffer length <= 8 (cursor, sizes, cluster numbers and device content fully symbolic)
// @desc FAT12 fixture, regular file, ANY inv_file state with the cursor at 0, every buffer length up to 8, table::alloc_cluster replaced by its contract: n <= min(len, bytes left in cluster, 2^32-1 - offset); the dirty bit is set (and written if it was clear) before anything else; exactly one data write of min(..) bytes at the address of byte `offset` in the file's current cluster / its successor / the first cluster / a freshly allocated cluster - written straight to the device (no buffering); offset += n; size = max(size, offset); first_cluster set on first allocation; modified := provider time (2 s), created/accessed untouched; NotEnoughSpace leaves the cursor alone
#[kani::proof]
#[kani::unwind(12)]
#[kani::stub(crate::table::alloc_cluster, stub_alloc_cluster)]
#[kani::stub(crate::fs::write_zeros, stub_no_zeros)]
fn write_contract_fat12_c2() {
    write_contract(bpb_fat12(), false, 2);
}

// @obl props=C02,C03,C11,C12,C14,C18 tier=thorough fns=File::write,File::update_dir_entry_after_write,File::set_first_cluster,FileSystem::alloc_cluster,FileSystem::set_dirty_flag timeout=3000
// @bound bounded: buffer length <= 8 (cursor, sizes, cluster numbers and device content fully symbolic)
// @desc FAT16 fixture, regular file, ANY inv_file state with the cursor inside a cluster, every buffer length up to 8, table::alloc_cluster replaced by its contract: n <= min(len, bytes left in cluster, 2^32-1 - offset); the dirty bit is set (and written if it was clear) before anything else; exactly one data write of min(..) bytes at the address of byte `offset` in the file's current cluster / its successor / the first cluster / a freshly allocated cluster - written straight to the device (no buffering); offset += n; size = max(size, offset); first_cluster set on first allocation; modified := provider time (2 s), created/accessed untouched; NotEnoughSpace leaves the cursor alone
#[kani::proof]
#[kani::unwind(12)]
#[kani::stub(crate::table::alloc_cluster, stub_alloc_cluster)]
#[kani::stub(crate::fs::write_zeros, stub_no_zeros)]
fn write_contract_fat16_c0() {
    write_contract(bpb_fat16(), false, 0);
}

// @obl props=C02,C03,C11,C12,C14,C18 tier=quick fns=File::write,File::update_dir_entry_after_write,File::set_first_cluster,FileSystem::alloc_cluster,FileSystem::set_dirty_flag timeout=900
// @bound bounded: buffer length <= 8 (cursor, sizes, cluster numbers and device content fully symbolic)
// @desc FAT16 fixture, regular file, ANY inv_file state with the cursor on a cluster boundary, every buffer length up to 8, table::alloc_cluster replaced by its contract: n <= min(len, bytes left in cluster, 2^32-1 - offset); the dirty bit is set (and written if it was clear) before anything else; exactly one data write of min(..) bytes at the address of byte `offset` in the file's current cluster / its successor / the first cluster / a freshly allocated cluster - written straight to the device (no buffering); offset += n; size = max(size, offset); first_cluster set on first allocation; modified := provider time (2 s), created/accessed untouched; NotEnoughSpace leaves the cursor alone
#[kani::proof]
#[kani::unwind(12)]
#[kani::stub(crate::table::alloc_cluster, stub_alloc_cluster)]
#[kani::stub(crate::fs::write_zeros, stub_no_zeros)]
fn write_contract_fat16_c1() {
    write_contract(bpb_fat16(), false, 1);
}

// @obl props=C02,C03,C11,C12,C14,C18 tier=thorough fns=File::write,File::update_dir_entry_after_write,File::set_first_cluster,FileSystem::alloc_cluster,FileSystem::set_dirty_flag timeout=3000
// @bound bounded: buffer length <= 8 (cursor, sizes, cluster numbers and device content fully symbolic)
// @desc FAT16 fixture, regular file, ANY inv_file state with the cursor at 0, every buffer length up to 8, table::alloc_cluster replaced by its contract: n <= min(len, bytes left in cluster, 2^32-1 - offset); the dirty bit is set (and written if it was clear) before anything else; exactly one data write of min(..) bytes at the address of byte `offset` in the file's current cluster / its successor / the first cluster / a freshly allocated cluster - written straight to the device (no buffering); offset += n; size = max(size, offset); first_cluster set on first allocation; modified := provider time (2 s), created/accessed untouched; NotEnoughSpace leaves the cursor alone
#[kani::proof]
#[kani::unwind(12)]
#[kani::stub(crate::table::alloc_cluster, stub_alloc_cluster)]
#[kani::stub(crate::fs::write_zeros, stub_no_zeros)]
fn write_contract_fat16_c2() {
    write_contract(bpb_fat16(), false, 2);
}

// @obl props=C02,C03,C11,C12,C14,C18,C20 tier=thorough fns=File::write,File::update_dir_entry_after_write,File::set_first_cluster,FileSystem::alloc_cluster,FileSystem::set_dirty_flag timeout=3000
// @bound bounded: buffer length <= 8 (cursor, sizes, cluster numbers and device content fully symbolic)
// @desc FAT32 fixture, regular file, ANY inv_file state with the cursor inside a cluster, every buffer length up to 8, table::alloc_cluster replaced by its contract: n <= min(len, bytes left in cluster, 2^32-1 - offset); the dirty bit is set (and written if it was clear) before anything else; exactly one data write of min(..) bytes at the address of byte `offset` in the file's current cluster / its successor / the first cluster / a freshly allocated cluster - written straight to the device (no buffering); offset += n; size = max(size, offset); first_cluster set on first allocation; modified := provider time (2 s), created/accessed untouched; NotEnoughSpace leaves the cursor alone
#[kani::proof]
#[kani::unwind(12)]
#[kani::stub(crate::table::alloc_cluster, stub_alloc_cluster)]
#[kani::stub(crate::fs::write_zeros, stub_no_zeros)]
fn write_contract_fat32_c0() {
    write_contract(bpb_fat32(), false, 0);
}

// @obl props=C02,C03,C11,C12,C14,C18,C20 tier=thorough fns=File::write,File::update_dir_entry_after_write,File::set_first_cluster,FileSystem::alloc_cluster,FileSystem::set_dirty_flag timeout=3000
// @bound bounded: buffer length <= 8 (cursor, sizes, cluster numbers and device content fully symbolic)
// @desc FAT32 fixture, regular file, ANY inv_file state with the cursor on a cluster boundary, every buffer length up to 8, table::alloc_cluster replaced by its contract: n <= min(len, bytes left in cluster, 2^32-1 - offset); the dirty bit is set (and written if it was clear) before anything else; exactly one data write of min(..) bytes at the address of byte `offset` in the file's current cluster / its successor / the first cluster / a freshly allocated cluster - written straight to the device (no buffering); offset += n; size = max(size, offset); first_cluster set on first allocation; modified := provider time (2 s), created/accessed untouched; NotEnoughSpace leaves the cursor alone
#[kani::proof]
#[kani::unwind(12)]
#[kani::stub(crate::table::alloc_cluster, stub_alloc_cluster)]
#[kani::stub(crate::fs::write_zeros, stub_no_zeros)]
fn write_contract_fat32_c1() {
    write_contract(bpb_fat32(), false, 1);
}

// @obl props=C02,C03,C11,C12,C14,C18,C20 tier=quick fns=File::write,File::update_dir_entry_after_write,File::set_first_cluster,FileSystem::alloc_cluster,FileSystem::set_dirty_flag timeout=900
// @bound bounded: buffer length <= 8 (cursor, sizes, cluster numbers and device content fully symbolic)
// @desc FAT32 fixture, regular file, ANY inv_file state with the cursor at 0, every buffer length up to 8, table::alloc_cluster replaced by its contract: n <= min(len, bytes left in cluster, 2^32-1 - offset); the dirty bit is set (and written if it was clear) before anything else; exactly one data write of min(..) bytes at the address of byte `offset` in the file's current cluster / its successor / the first cluster / a freshly allocated cluster - written straight to the device (no buffering); offset += n; size = max(size, offset); first_cluster set on first allocation; modified := provider time (2 s), created/accessed untouched; NotEnoughSpace leaves the cursor alone
#[kani::proof]
#[kani::unwind(12)]
#[kani::stub(crate::table::alloc_cluster, stub_alloc_cluster)]
#[kani::stub(crate::fs::write_zeros, stub_no_zeros)]
fn write_contract_fat32_c2() {
    write_contract(bpb_fat32(), false, 2);
}

// @obl props=C02,C11,C20 tier=quick fns=File::write,FileSystem::offset_from_cluster timeout=900
// @bound bounded: buffer length <= 8
// @desc 2^32-1 sectors x 4096 bytes, 64 KiB clusters with the cursor inside a cluster: contract of write_contract_fat12_c* with exact 64-bit addresses up to the last cluster
#[kani::proof]
#[kani::unwind(12)]
#[kani::stub(crate::table::alloc_cluster, stub_alloc_cluster)]
#[kani::stub(crate::fs::write_zeros, stub_no_zeros)]
fn write_contract_huge_c0() {
    write_contract(bpb_fat32_huge(), false, 0);
}

// @obl props=C02,C11,C20 tier=thorough fns=File::write,FileSystem::offset_from_cluster timeout=3000
// @bound bounded: buffer length <= 8
// @desc 2^32-1 sectors x 4096 bytes, 64 KiB clusters with the cursor on a cluster boundary: contract of write_contract_fat12_c* with exact 64-bit addresses up to the last cluster
#[kani::proof]
#[kani::unwind(12)]
#[kani::stub(crate::table::alloc_cluster, stub_alloc_cluster)]
#[kani::stub(crate::fs::write_zeros, stub_no_zeros)]
fn write_contract_huge_c1() {
    write_contract(bpb_fat32_huge(), false, 1);
}

// @obl props=C02,C03,C11 tier=quick fns=File::write,FileSystem::alloc_cluster,write_zeros timeout=900
// @bound bounded: buffer length <= 8
// @desc FAT32 fixture, directory stream on a cluster boundary: as write_contract_fat12_c1; a cluster allocated for a directory is zeroed before use
#[kani::proof]
#[kani::unwind(12)]
#[kani::stub(crate::table::alloc_cluster, stub_alloc_cluster)]
#[kani::stub(crate::fs::write_zeros, stub_zeros_contract)]
fn write_contract_dir_c1() {
    write_contract(bpb_fat32(), true, 1);
}

// @obl props=C02,C18 tier=quick fns=File::update_dir_entry_after_write,DirEntryEditor::set_modified,DirEntryEditor::set_size
// @desc for EVERY provider DateTime and every file state: after a successful write the entry's modification stamp is the provider's value at 2 s resolution, size becomes max(size, offset) for files (directories have none), created / accessed / name / attributes / first cluster are untouched, and the entry is marked dirty whenever anything changed
#[kani::proof]
#[kani::unwind(13)]
fn stamp_after_write() {
    let bpb = bpb_fat16();
    let max = bpb.total_clusters() + 2;
    let tp = SymTime::any();
    let fs = mk_fs_plain(NdDev::read_only(), bpb.clone(), FsStatusFlags::decode(0), opts(false, tp));
    let mut st = any_file_state(max, true, kani::any());
    // `offset` is the cursor AFTER the write; it may exceed the recorded size
    st.offset = kani::any();
    let mut f = mk_file(&fs, &st);
    f.update_dir_entry_after_write();
    let e = f.entry.as_ref().unwrap();
    let d0 = st.data.as_ref().unwrap();
    let m = d_modified(ed_data(e));
    assert!(m.date == tp.dt.date && m.time.hour == tp.dt.time.hour && m.time.min == tp.dt.time.min);
    assert!(m.time.sec == tp.dt.time.sec - tp.dt.time.sec % 2 && m.time.millis == 0);
    assert!(d_created(ed_data(e)) == d_created(d0) && d_accessed(ed_data(e)) == d_accessed(d0));
    match d0.size() {
        Some(s0) => assert!(ed_data(e).size() == Some(s0.max(st.offset))),
        None => assert!(ed_data(e).size().is_none()),
    }
    assert!(ed_data(e).first_cluster(FatType::Fat16) == d0.first_cluster(FatType::Fat16));
    assert!(ed_pos(e) == st.pos);
    if !st.dirty && !ed_dirty(e) {
        assert!(crate::dir_entry::verif_kani::sfn_eq(ed_data(e), d0));
    }
    assert!(fs.disk.borrow().nlog == 0);
    kani::cover!(d0.size().is_some() && st.offset > d0.size().unwrap());
    core::mem::forget(f);
    core::mem::forget(fs);
}

fn truncate_contract(bpb: BiosParameterBlock) {
    let cs = bpb.cluster_size();
    let max = bpb.total_clusters() + 2;
    let fat_begin = bpb.reserved_sectors as u64 * bpb.bytes_per_sector as u64;
    let fat_end = fat_begin + bpb.fats as u64 * bpb.sectors_per_fat() as u64 * bpb.bytes_per_sector as u64;
    let mut dev = NdDev::new();
    setup(&bpb, &mut dev);
    dev.eoc_after = 2; // the chain has at most one more cluster after the one the cursor is in
    let fs = mk_fs_plain(dev, bpb.clone(), FsStatusFlags::decode(0), opts(false, SymTime::fixed()));
    let st = any_file_state(max, true, false);
    let mut f = mk_file(&fs, &st);
    let r = f.truncate();
    assert!(r.is_ok());
    let e = f.entry.as_ref().unwrap();
    let d0 = st.data.as_ref().unwrap();
    // everything from the cursor onward is discarded: the size is the cursor, the cursor does not move
    assert!(ed_data(e).size() == Some(st.offset));
    assert!(f.offset == st.offset && f.current_cluster == st.current);
    if st.offset == 0 {
        // an empty file owns no cluster
        assert!(f.first_cluster.is_none());
        assert!(ed_data(e).first_cluster(fs.fat_type()).is_none());
    } else {
        assert!(f.first_cluster == st.first);
        assert!(ed_data(e).first_cluster(fs.fat_type()) == d0.first_cluster(fs.fat_type()));
    }
    if d0.size() != Some(st.offset) {
        assert!(ed_dirty(e));
    }
    assert!(d_created(ed_data(e)) == d_created(d0) && d_modified(ed_data(e)) == d_modified(d0));
    {
        let d = fs.disk.borrow();
        assert!(!d.overflow);
        // every device write of a truncation is a table update (either copy) or the status byte
        let i: usize = kani::any();
        kani::assume(i < d.nlog);
        if let Op::Write(p, n) = d.log[i] {
            assert!((p == 0x25 && n == 1) || (p >= fat_begin && p + n as u64 <= fat_end));
        }
        if st.first.is_some() {
            // the table was touched, so the volume is marked dirty
            assert!(d.nwrites == 0 || cur_flags(&fs).dirty);
        } else {
            assert!(d.nlog == 0);
        }
    }
    kani::cover!(st.offset == 0 && st.first.is_some());
    kani::cover!(st.offset > 0 && fs.disk.borrow().nwrites >= 4);
    core::mem::forget(f);
    core::mem::forget(fs);
}

// (not registered as an obligation: does not finish within 25 minutes in this sandbox; kept for reference)
// obl-disabled props=C02,C03,C05,C11,C12 fns=File::truncate
// @bound bounded: FAT16 fixture; the chain has at most one cluster after the cursor's (device content otherwise symbolic)
// @desc File::truncate from ANY inv_file state of a regular file: Ok; size := cursor, cursor and current cluster unchanged; at cursor 0 the file gives up its first cluster (in memory and in the entry: an empty file owns no cluster), otherwise the first cluster stays; the entry is marked dirty when the size changed; timestamps untouched; every device write is a table update inside the FAT area (either copy) or the one-byte status write, and the volume is marked dirty when the table was touched
#[kani::proof]
#[kani::unwind(10)]
fn truncate_contract_fat16() {
    truncate_contract(bpb_fat16());
}

// ghost record of the chain operations File::truncate delegates to (contracts: FileSystem::truncate_cluster_chain and
// free_cluster_chain, proved separately: chain_glue_* in fs.rs over ClusterIterator::truncate/free in Verus unit table_iter)
static mut G_TRUNC_ARG: Option<u32> = None;
static mut G_FREE_ARG: Option<u32> = None;
static mut G_CHAIN_CALLS: u32 = 0;

fn stub_truncate_chain<IO: ReadWriteSeek, TP, OCC>(_fs: &FileSystem<IO, TP, OCC>, cluster: u32) -> Result<(), Error<IO::Error>> {
    unsafe {
        G_TRUNC_ARG = Some(cluster);
        G_CHAIN_CALLS += 1;
    }
    if kani::any() {
        Ok(())
    } else {
        Err(Error::CorruptedFileSystem)
    }
}

fn stub_free_chain<IO: ReadWriteSeek, TP, OCC>(_fs: &FileSystem<IO, TP, OCC>, cluster: u32) -> Result<(), Error<IO::Error>> {
    unsafe {
        G_FREE_ARG = Some(cluster);
        G_CHAIN_CALLS += 1;
    }
    if kani::any() {
        Ok(())
    } else {
        Err(Error::CorruptedFileSystem)
    }
}

fn truncate_modular(bpb: BiosParameterBlock) {
    let max = bpb.total_clusters() + 2;
    let mut dev = NdDev::read_only();
    setup(&bpb, &mut dev);
    let fs = mk_fs_plain(dev, bpb.clone(), FsStatusFlags::decode(0), opts(false, SymTime::fixed()));
    let st = any_file_state(max, true, false);
    let mut f = mk_file(&fs, &st);
    let r = f.truncate();
    let e = f.entry.as_ref().unwrap();
    let d0 = st.data.as_ref().unwrap();
    let (targ, farg, calls) = unsafe { (G_TRUNC_ARG, G_FREE_ARG, G_CHAIN_CALLS) };
    // everything from the cursor onward is discarded: the size is the cursor; the cursor does not move
    assert!(ed_data(e).size() == Some(st.offset));
    assert!(f.offset == st.offset && f.current_cluster == st.current);
    assert!(calls <= 1);
    if st.offset == 0 {
        // an empty file owns no cluster: the whole chain is released, in the entry and (once released) in memory
        assert!(ed_data(e).first_cluster(fs.fat_type()).is_none());
        assert!(targ.is_none());
        assert!(farg == st.first);
        if r.is_ok() {
            assert!(f.first_cluster.is_none());
        }
        assert!(r.is_ok() || st.first.is_some());
    } else {
        // the chain is cut after the cluster the cursor is in; the first cluster stays
        assert!(targ == st.current && farg.is_none() && calls == 1);
        assert!(f.first_cluster == st.first);
        assert!(ed_data(e).first_cluster(fs.fat_type()) == d0.first_cluster(fs.fat_type()));
    }
    if d0.size() != Some(st.offset) {
        assert!(ed_dirty(e));
    }
    if !st.dirty && !ed_dirty(e) {
        assert!(crate::dir_entry::verif_kani::sfn_eq(ed_data(e), d0));
    }
    assert!(d_created(ed_data(e)) == d_created(d0) && d_modified(ed_data(e)) == d_modified(d0));
    assert!(ed_pos(e) == st.pos);
    // no device access of its own
    assert!(fs.disk.borrow().nlog == 0);
    kani::cover!(st.offset == 0 && st.first.is_some() && r.is_ok());
    kani::cover!(st.offset > 0 && r.is_err());
    kani::cover!(st.offset == 0 && st.first.is_none());
    core::mem::forget(f);
    core::mem::forget(fs);
}

// @obl props=C02,C03,C05 tier=quick fns=File::truncate timeout=600
// @desc File::truncate (real body; FileSystem::truncate_cluster_chain / free_cluster_chain replaced by their contracts) from ANY inv_file state of a regular file on a FAT16 volume: size := cursor, cursor and current cluster unchanged; with the cursor inside the file the chain is cut exactly after the cursor's cluster and the first cluster stays; at cursor 0 the whole chain from the first cluster is released and the file gives up its first cluster in the entry and, once the release succeeded, in memory; the entry is marked dirty when the size changed and otherwise untouched; timestamps and entry position untouched; at most one chain operation; no device access of its own
#[kani::proof]
#[kani::unwind(13)]
#[kani::stub(crate::fs::FileSystem::truncate_cluster_chain, stub_truncate_chain)]
#[kani::stub(crate::fs::FileSystem::free_cluster_chain, stub_free_chain)]
fn truncate_modular_fat16() {
    truncate_modular(bpb_fat16());
}

// @obl props=C02,C03,C05 tier=quick fns=File::truncate timeout=600
// @desc the same contract of File::truncate on a FAT32 volume (the first-cluster field spans both words of the entry)
#[kani::proof]
#[kani::unwind(13)]
#[kani::stub(crate::fs::FileSystem::truncate_cluster_chain, stub_truncate_chain)]
#[kani::stub(crate::fs::FileSystem::free_cluster_chain, stub_free_chain)]
fn truncate_modular_fat32() {
    truncate_modular(bpb_fat32());
}

fn seek_arith(bpb: BiosParameterBlock) {
    let cs = bpb.cluster_size();
    let max = bpb.total_clusters() + 2;
    let mut dev = NdDev::read_only();
    setup(&bpb, &mut dev);
    dev.eoc_after = 4;
    let fs = mk_fs_plain(dev, bpb.clone(), FsStatusFlags::decode(0), opts(false, SymTime::any()));
    let st = any_file_state(max, true, kani::any());
    let is_dir = st.data.as_ref().unwrap().is_dir();
    let mut f = mk_file(&fs, &st);
    let sel: u8 = kani::any();
    let a: u64 = kani::any();
    let size = st.data.as_ref().unwrap().size();
    let (pos, target): (SeekFrom, Option<i128>) = match sel % 3 {
        0 => (SeekFrom::Start(a), Some(a as i128)),
        1 => (SeekFrom::Current(a as i64), Some(st.offset as i128 + (a as i64) as i128)),
        _ => (SeekFrom::End(a as i64), size.map(|s| s as i128 + (a as i64) as i128)),
    };
    // bound of the chain walk: at most 3 clusters are skipped (the walk itself is the bounded part)
    if let Some(t) = target {
        let t = if let Some(s) = size { t.min(s as i128) } else { t };
        kani::assume(t <= 4 * cs as i128);
    }
    let r = f.seek(pos);
    let r_val: Option<u64> = match &r {
        Ok(x) => Some(*x),
        Err(_) => None,
    };
    let valid = matches!(target, Some(t) if t >= 0 && t <= u32::MAX as i128);
    if !valid {
        // before the start (or not representable): rejected, state unchanged
        assert!(matches!(r, Err(Error::InvalidInput)));
        assert!(f.offset == st.offset && f.current_cluster == st.current);
    } else {
        let t = target.unwrap() as u64;
        let want = match size {
            Some(s) => t.min(s as u64),
            None => t,
        };
        let got = r.unwrap();
        assert!(got == f.offset as u64);
        // beyond the end clamps to the end; never beyond the target; a shorter chain clamps to its end
        assert!(got <= want);
        if st.first.is_none() {
            assert!(got == 0);
        }
        assert!(f.current_cluster.is_none() == (f.offset == 0));
        if got < want {
            // only possible when the chain on the device is shorter than the position asked for
            assert!(got % cs as u64 == 0 && got > 0 || st.first.is_none());
        }
        if let Some(c) = f.current_cluster {
            assert!(c >= 2 && c < max);
        }
        let same_cluster_index = (got + cs as u64 - 1) / cs as u64 == (st.offset as u64 + cs as u64 - 1) / cs as u64;
        if got != 0 && same_cluster_index && got == want {
            assert!(f.current_cluster == st.current);
        }
        // the chain is walked from the first cluster by exactly ceil(new/cs) - 1 links (the cluster HOLDING byte
        // new-1: at an exact cluster boundary that is the previous cluster), one table read per link
        if got != st.offset as u64 && got != 0 && !same_cluster_index && st.first.is_some() {
            let k = (got + cs as u64 - 1) / cs as u64;
            let reads = fs.disk.borrow().nreads as u64;
            if got == want {
                assert!(reads == k - 1);
            } else {
                assert!(reads == k);
            }
        }
    }
    assert!(f.first_cluster == st.first);
    assert!(fs.disk.borrow().nwrites == 0);
    if let (Some(e), Some(d0)) = (&f.entry, &st.data) {
        assert!(ed_dirty(e) == st.dirty && ed_data(e).size() == d0.size());
    }
    kani::cover!(valid && matches!(r_val, Some(x) if x > cs as u64));
    kani::cover!(!valid);
    kani::cover!(sel % 3 == 2 && valid && (a as i64) < 0);
    core::mem::forget(f);
    core::mem::forget(fs);
}

// @obl props=C02,C09,C13 tier=quick fns=File::seek,FileSystem::clusters_from_bytes,FileSystem::bytes_from_clusters timeout=900
// @bound bounded: target position within the first 4 clusters (chain walk of at most 3 steps); the offset arithmetic is over ALL u64/i64 seek arguments
// @desc FAT16 fixture, any inv_file state, every SeekFrom: no overflow or panic; a target before the start (or not representable) is Err(InvalidInput) with the cursor unchanged; a target beyond the end clamps to the size; the result equals the new offset; current cluster None iff offset 0, otherwise a valid cluster; staying within the same cluster keeps the current cluster; otherwise exactly ceil(new/cs)-1 chain links are followed from the first cluster (at an exact cluster boundary the cursor stays on the previous cluster); a chain shorter than the target clamps to the end of the chain; never writes, never touches the entry
#[kani::proof]
#[kani::unwind(6)]
fn seek_contract_fat16() {
    seek_arith(bpb_fat16());
}

// @obl props=C02,C09,C13,C20 tier=thorough fns=File::seek,FileSystem::clusters_from_bytes,FileSystem::bytes_from_clusters timeout=3000
// @bound bounded: target position within the first 4 clusters
// @desc FAT32 fixture: contract of seek_contract_fat16
#[kani::proof]
#[kani::unwind(6)]
fn seek_contract_fat32() {
    seek_arith(bpb_fat32());
}

// @obl props=C04,C09,C13,C14 tier=quick fns=File::flush,File::flush_dir_entry,DirEntryEditor::flush
// @desc any FAT type fixture, any file state: File::flush writes the directory entry (seek to its position + 32 bytes) iff it is dirty, clears dirty, and the LAST device call is flush(); a clean entry causes no write at all; Drop does the same and swallows nothing before attempting both steps
#[kani::proof]
#[kani::unwind(14)]
fn flush_contract() {
    let sel: u8 = kani::any();
    let bpb = match sel % 3 {
        0 => bpb_fat12(),
        1 => bpb_fat16(),
        _ => bpb_fat32(),
    };
    let max = bpb.total_clusters() + 2;
    let dev = NdDev::new();
    let fs = mk_fs_plain(dev, bpb.clone(), FsStatusFlags::decode(0), opts(false, SymTime::any()));
    let st = any_file_state(max, kani::any(), kani::any());
    kani::assume(st.pos < 1u64 << 45);
    let mut f = mk_file(&fs, &st);
    let via_drop: bool = kani::any();
    if via_drop {
        drop(f);
    } else {
        let r = Write::flush(&mut f);
        assert!(r.is_ok());
        if let Some(e) = &f.entry {
            assert!(!ed_dirty(e));
        }
        core::mem::forget(f);
    }
    {
        let d = fs.disk.borrow();
        assert!(!d.overflow);
        assert!(d.last_op() == Op::Flush && d.nflush == 1);
        if st.data.is_some() && st.dirty {
            assert!(d.log[0] == Op::Seek(st.pos));
            assert!(d.nwrites == 12 && d.pos == st.pos + 32);
            assert!(d.nlog == 14);
        } else {
            assert!(d.nwrites == 0 && d.nlog == 1);
        }
    }
    kani::cover!(via_drop && st.data.is_some() && st.dirty);
    kani::cover!(!via_drop && !st.dirty);
    core::mem::forget(fs);
}

/// One File operation from a concrete state at a cluster boundary of a 3-cluster file (FAT16 fixture), device
/// content symbolic, the k-th device call failing (k concrete).  op: 0 read, 1 write, 2 seek, 3 flush
pub(crate) fn file_fault_case(op: u8, k: usize) {
    let bpb = bpb_fat16();
    let cs = bpb.cluster_size();
    let mut dev = NdDev::fault_at(k);
    setup(&bpb, &mut dev);
    dev.eoc_after = 3;
    dev.budget = 60;
    let fs = mk_fs_plain(dev, bpb.clone(), FsStatusFlags::decode(0), opts(true, SymTime::fixed()));
    let mut d = any_sfn_data();
    d = crate::dir_entry::verif_kani::with_attrs(d, 0x20);
    let st = FileState { first: Some(5), current: Some(7), offset: 2 * cs, data: Some(d), pos: 0x8000, dirty: true };
    kani::assume(st.data.as_ref().unwrap().size() == Some(3 * cs + 100));
    let mut f = mk_file(&fs, &st);
    let mut backing = [0u8; 8];
    let res: Result<(), Error<DevErr>> = match op {
        0 => f.read(&mut backing[..]).map(|_| ()),
        1 => f.write(&backing[..]).map(|_| ()),
        2 => f.seek(SeekFrom::Start((cs + 1) as u64)).map(|_| ()),
        _ => Write::flush(&mut f),
    };
    let fired = fs.disk.borrow().fault_fired;
    let tag = fs.disk.borrow().first_tag;
    if fired {
        match res {
            Err(Error::Io(e)) => assert!(e.tag == tag),
            _ => assert!(false, "storage error swallowed or masked by a File operation"),
        }
    } else {
        assert!(matches!(res, Ok(()) | Err(Error::NotEnoughSpace)));
    }
    core::mem::forget(f);
    core::mem::forget(fs);
}

fn any_flags_clean() -> FsStatusFlags {
    FsStatusFlags { dirty: kani::any(), io_error: false }
}
