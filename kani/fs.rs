// Kani obligations for src/fs.rs (child module of the real fs module).
// @needs boot_sector,table
#![allow(dead_code, unused_imports, unused_variables, unused_mut)]
use super::*;
use crate::boot_sector::BiosParameterBlock;
use crate::verif_common::*;

// ------------------------------------------------------------------------------------------------
// fixtures: concrete geometries (the geometry *arithmetic* is proved for all geometries separately,
// see geom_* below and the Verus geometry unit; File/FileSystem single-call contracts use these)
// ------------------------------------------------------------------------------------------------

pub(crate) fn bpb_fat12() -> BiosParameterBlock {
    // 1.44 MB floppy layout: 2847 clusters of 512 bytes
    BiosParameterBlock {
        bytes_per_sector: 512,
        sectors_per_cluster: 1,
        reserved_sectors: 1,
        fats: 2,
        root_entries: 224,
        total_sectors_16: 2880,
        media: 0xF0,
        sectors_per_fat_16: 9,
        ..BiosParameterBlock::default()
    }
}

pub(crate) fn bpb_fat16() -> BiosParameterBlock {
    // 16000 clusters of 2048 bytes
    BiosParameterBlock {
        bytes_per_sector: 512,
        sectors_per_cluster: 4,
        reserved_sectors: 1,
        fats: 2,
        root_entries: 512,
        total_sectors_16: 64163,
        media: 0xF8,
        sectors_per_fat_16: 65,
        ..BiosParameterBlock::default()
    }
}

pub(crate) fn bpb_fat32() -> BiosParameterBlock {
    // 100000 clusters of 4096 bytes
    BiosParameterBlock {
        bytes_per_sector: 512,
        sectors_per_cluster: 8,
        reserved_sectors: 32,
        fats: 2,
        root_entries: 0,
        total_sectors_16: 0,
        total_sectors_32: 32 + 2000 + 8 * 100000,
        media: 0xF8,
        sectors_per_fat_16: 0,
        sectors_per_fat_32: 1000,
        root_dir_first_cluster: 2,
        fs_info_sector: 1,
        backup_boot_sector: 6,
        ..BiosParameterBlock::default()
    }
}

pub(crate) fn bpb_fat32_huge() -> BiosParameterBlock {
    // 2^32-1 sectors of 4096 bytes (16 TiB), 64 KiB clusters: the last cluster lies above 2^43
    BiosParameterBlock {
        bytes_per_sector: 4096,
        sectors_per_cluster: 16,
        reserved_sectors: 32,
        fats: 2,
        root_entries: 0,
        total_sectors_16: 0,
        total_sectors_32: u32::MAX,
        media: 0xF8,
        sectors_per_fat_16: 0,
        sectors_per_fat_32: 262144,
        root_dir_first_cluster: 2,
        fs_info_sector: 1,
        backup_boot_sector: 6,
        ..BiosParameterBlock::default()
    }
}

pub(crate) type Opts = FsOptions<SymTime, LossyOemCpConverter>;

pub(crate) fn opts(update_accessed_date: bool, tp: SymTime) -> Opts {
    FsOptions { update_accessed_date, oem_cp_converter: LossyOemCpConverter::new(), time_provider: tp, strict: true }
}

/// FileSystem by struct literal (no mount I/O): exactly the fields `FileSystem::new` computes.
pub(crate) fn mk_fs<IO: ReadWriteSeek>(
    dev: IO,
    bpb: BiosParameterBlock,
    fs_info: FsInfoSector,
    current: FsStatusFlags,
    options: Opts,
) -> FileSystem<IO, SymTime, LossyOemCpConverter> {
    let total_clusters = bpb.total_clusters();
    FileSystem {
        disk: RefCell::new(dev),
        options,
        fat_type: FatType::from_clusters(total_clusters),
        first_data_sector: bpb.first_data_sector(),
        root_dir_sectors: bpb.root_dir_sectors(),
        total_clusters,
        bpb,
        fs_info: RefCell::new(fs_info),
        current_status_flags: Cell::new(current),
    }
}

/// helpers for harness modules of other source files (which cannot see this module's private items)
pub(crate) fn mk_fs_plain<IO: ReadWriteSeek>(
    dev: IO,
    bpb: BiosParameterBlock,
    current: FsStatusFlags,
    options: Opts,
) -> FileSystem<IO, SymTime, LossyOemCpConverter> {
    mk_fs(dev, bpb, FsInfoSector { free_cluster_count: None, next_free_cluster: None, dirty: false }, current, options)
}

pub(crate) fn cur_flags<IO: ReadWriteSeek, TP, OCC>(fs: &FileSystem<IO, TP, OCC>) -> FsStatusFlags {
    fs.current_status_flags.get()
}

pub(crate) fn fs_info_dirty<IO: ReadWriteSeek, TP, OCC>(fs: &FileSystem<IO, TP, OCC>) -> bool {
    fs.fs_info.borrow().dirty
}

pub(crate) fn any_flags() -> FsStatusFlags {
    FsStatusFlags { dirty: kani::any(), io_error: kani::any() }
}

pub(crate) fn any_fs_info() -> FsInfoSector {
    FsInfoSector {
        free_cluster_count: if kani::any() { Some(kani::any()) } else { None },
        next_free_cluster: if kani::any() { Some(kani::any()) } else { None },
        dirty: kani::any(),
    }
}

/// inv_count of DESIGN.md (C05) restricted to what a FileSystem can know without the table:
/// count <= total, hint in [2, total+2]
pub(crate) fn fs_info_in_range(i: &FsInfoSector, total: u32) -> bool {
    (match i.free_cluster_count {
        Some(n) => n <= total,
        None => true,
    }) && (match i.next_free_cluster {
        Some(n) => n >= 2 && n <= total + 2,
        None => true,
    })
}

fn sel_bpb(sel: u8) -> BiosParameterBlock {
    match sel {
        0 => bpb_fat12(),
        1 => bpb_fat16(),
        _ => bpb_fat32(),
    }
}

// @obl props=C02,C05,C11,C12,C13,C20 tier=quick fns=BiosParameterBlock::validate
// @desc the four fixture geometries used by File/FileSystem single-call contracts are accepted by the real validate() and have the FAT type their name says (so the fixtures are reachable states of a mounted volume)
#[kani::proof]
fn fixtures_are_valid_volumes() {
    let b12 = bpb_fat12();
    let b16 = bpb_fat16();
    let b32 = bpb_fat32();
    let bh = bpb_fat32_huge();
    assert!(crate::boot_sector::verif_kani::bpb_validate_ok(&b12) && FatType::from_clusters(b12.total_clusters()) == FatType::Fat12);
    assert!(crate::boot_sector::verif_kani::bpb_validate_ok(&b16) && FatType::from_clusters(b16.total_clusters()) == FatType::Fat16);
    assert!(crate::boot_sector::verif_kani::bpb_validate_ok(&b32) && FatType::from_clusters(b32.total_clusters()) == FatType::Fat32);
    assert!(crate::boot_sector::verif_kani::bpb_validate_ok(&bh) && FatType::from_clusters(bh.total_clusters()) == FatType::Fat32);
    assert!(b12.total_clusters() == 2847 && b16.total_clusters() == 16000 && b32.total_clusters() == 100000);
    // the huge volume's FAT addresses every cluster and its last cluster starts above 2^43
    let spf = bh.sectors_per_fat() as u64;
    assert!(spf * 4096 / 4 >= bh.total_clusters() as u64 + 2);
    assert!((bh.first_data_sector() as u64 + (bh.total_clusters() as u64 - 1) * 16) * 4096 > (1u64 << 43));
    kani::cover!(true);
}

// ------------------------------------------------------------------------------------------------
// FS-info sector codec (C04, C05, C07)
// ------------------------------------------------------------------------------------------------

// @obl props=C04,C05,C07 tier=quick fns=FsInfoSector::deserialize
// @desc forall 512 bytes: FsInfoSector::deserialize never panics; Ok iff lead/struct/trail signatures (offsets 0, 484, 508) match, else Err(CorruptedFileSystem); on Ok count = le32@488 (0xFFFFFFFF -> None), hint = le32@492 (0xFFFFFFFF, 0, 1 -> None), dirty = false, 512 bytes consumed
#[kani::proof]
#[kani::unwind(482)]
fn fsinfo_parse() {
    let mut dev = MemDev::<512>::any();
    let bytes = dev.data;
    let r = FsInfoSector::deserialize(&mut dev);
    let sig_ok = le32(&bytes, 0) == 0x4161_5252 && le32(&bytes, 484) == 0x6141_7272 && le32(&bytes, 508) == 0xAA55_0000;
    match r {
        Ok(i) => {
            assert!(sig_ok);
            let c = le32(&bytes, 488);
            let h = le32(&bytes, 492);
            assert!(i.free_cluster_count == if c == 0xFFFF_FFFF { None } else { Some(c) });
            assert!(i.next_free_cluster == if h == 0xFFFF_FFFF || h == 0 || h == 1 { None } else { Some(h) });
            assert!(!i.dirty);
            assert!(dev.pos == 512);
        }
        Err(e) => {
            assert!(!sig_ok);
            assert!(matches!(e, Error::CorruptedFileSystem));
        }
    }
    kani::cover!(sig_ok);
    kani::cover!(!sig_ok);
}

// @obl props=C04,C05 tier=quick fns=FsInfoSector::serialize
// @desc forall (count, hint): FsInfoSector::serialize writes exactly 512 bytes = signatures at 0/484/508, count at 488, hint at 492 (None -> 0xFFFFFFFF), zero everywhere else
#[kani::proof]
#[kani::unwind(482)]
fn fsinfo_serialize_layout() {
    let info = any_fs_info();
    let mut out = MemDev::<512>::any();
    assert!(info.serialize(&mut out).is_ok());
    assert!(out.pos == 512);
    let b = &out.data;
    assert!(le32(b, 0) == 0x4161_5252 && le32(b, 484) == 0x6141_7272 && le32(b, 508) == 0xAA55_0000);
    assert!(le32(b, 488) == info.free_cluster_count.unwrap_or(0xFFFF_FFFF));
    assert!(le32(b, 492) == info.next_free_cluster.unwrap_or(0xFFFF_FFFF));
    let i: usize = kani::any();
    kani::assume((i >= 4 && i < 484) || (i >= 496 && i < 508));
    assert!(b[i] == 0);
    kani::cover!(info.free_cluster_count.is_some());
}

// @obl props=C05,C07,C20 tier=quick fns=FsInfoSector::validate_and_fix
// @desc forall (count, hint, dirty, total_clusters <= 0x0FFFFFFF): no overflow; count > total -> None; hint > total+2 -> None; everything else unchanged (so after mount count <= total and hint <= total+2)
#[kani::proof]
fn fsinfo_validate_and_fix() {
    let mut info = any_fs_info();
    let old = info.clone();
    let total: u32 = kani::any();
    kani::assume(total <= 0x0FFF_FFFF);
    info.validate_and_fix(total);
    match old.free_cluster_count {
        Some(n) if n > total => assert!(info.free_cluster_count.is_none()),
        x => assert!(info.free_cluster_count == x),
    }
    match old.next_free_cluster {
        Some(n) if n as u64 > total as u64 + 2 => assert!(info.next_free_cluster.is_none()),
        x => assert!(info.next_free_cluster == x),
    }
    assert!(info.dirty == old.dirty);
    kani::cover!(old.free_cluster_count.is_some() && info.free_cluster_count.is_none());
    kani::cover!(old.next_free_cluster.is_some() && info.next_free_cluster.is_some());
}

// ------------------------------------------------------------------------------------------------
// status flags, dirty bit (C12)
// ------------------------------------------------------------------------------------------------

// @obl props=C12 tier=quick fns=FsStatusFlags::encode,FsStatusFlags::decode
// @desc forall u8 m: decode(m) = (bit0, bit1); encode(decode(m)) = m & 3; decode(encode(f)) = f
#[kani::proof]
fn status_flags_codec() {
    let m: u8 = kani::any();
    let f = FsStatusFlags::decode(m);
    assert!(f.dirty == (m & 1 != 0) && f.io_error == (m & 2 != 0));
    assert!(f.encode() == m & 3);
    let g = any_flags();
    assert!(FsStatusFlags::decode(g.encode()) == g);
    kani::cover!(m > 3);
}

fn status_offset(ft: FatType) -> u64 {
    if ft == FatType::Fat32 {
        0x41
    } else {
        0x25
    }
}

// @obl props=C11,C12,C13 tier=quick fns=FileSystem::set_dirty_flag
// @desc forall mount-time status byte m, current flags, argument, FAT type: target = decode(m) with dirty |= arg; target == current -> NO device call; else exactly one seek to 0x41 (FAT32) / 0x25 and a one-byte write whose bits 0-1 encode target, current := target; bits set in decode(m) are never cleared
#[kani::proof]
#[kani::unwind(4)]
fn set_dirty_flag_contract() {
    let sel: u8 = kani::any();
    kani::assume(sel < 3);
    let mut bpb = sel_bpb(sel);
    let m: u8 = kani::any();
    bpb.reserved_1 = m;
    let cur = any_flags();
    let arg: bool = kani::any();
    let fs = mk_fs(NdDev::new(), bpb, FsInfoSector::default(), cur, opts(false, SymTime::any()));
    let r = fs.set_dirty_flag(arg);
    assert!(r.is_ok());
    let target = FsStatusFlags { dirty: (m & 1 != 0) || arg, io_error: m & 2 != 0 };
    {
        let d = fs.disk.borrow();
        if target == cur {
            assert!(d.nlog == 0);
        } else {
            let off = status_offset(fs.fat_type());
            assert!(d.nlog == 2);
            assert!(d.log[0] == Op::Seek(off));
            assert!(d.log[1] == Op::Write(off, 1));
            assert!(d.last_write_byte & 3 == target.encode());
            // bits set at mount time are never cleared
            assert!(d.last_write_byte & (m & 3) == (m & 3));
        }
        assert!(!d.overflow);
    }
    assert!(fs.current_status_flags.get() == if target == cur { cur } else { target });
    kani::cover!(target != cur);
    kani::cover!(target == cur);
    core::mem::forget(fs);
}

// @obl props=C12 tier=quick fns=FileSystem::set_dirty_flag,FsStatusFlags::encode
// @desc forall mount-time status byte m (all 256 values) and FAT type: after set_dirty_flag(true) then set_dirty_flag(false) the status byte on the device equals m again (clean unmount restores the mount-time value, reserved bits 2-7 included); if m already had the dirty bit nothing is written at all
#[kani::proof]
#[kani::unwind(4)]
fn status_byte_exact() {
    let sel: u8 = kani::any();
    kani::assume(sel < 3);
    let mut bpb = sel_bpb(sel);
    let m: u8 = kani::any();
    bpb.reserved_1 = m;
    let cur = FsStatusFlags::decode(m); // as FileSystem::new sets it
    let fs = mk_fs(NdDev::new(), bpb, FsInfoSector::default(), cur, opts(false, SymTime::any()));
    assert!(fs.set_dirty_flag(true).is_ok());
    let n1 = fs.disk.borrow().nwrites;
    if m & 1 == 0 {
        assert!(n1 == 1);
        // while dirty, the byte on the device keeps every other mount-time bit
        assert!(fs.disk.borrow().last_write_byte == m | 1);
    } else {
        assert!(n1 == 0);
    }
    assert!(fs.set_dirty_flag(false).is_ok());
    let d = fs.disk.borrow();
    if m & 1 == 0 {
        assert!(d.nwrites == 2);
        assert!(d.last_write_byte == m);
    } else {
        assert!(d.nwrites == 0);
    }
    kani::cover!(m >= 4 && m & 1 == 0);
    drop(d);
    core::mem::forget(fs);
}

// @obl props=C12 tier=quick fns=FsIoAdapter::write
// @desc forall buffers (len 0..=4), current flags, FAT type: FsIoAdapter::write forwards one device write; if it wrote n > 0 bytes the volume is marked dirty before returning (in-memory flag set and, if the on-disk bit was clear, the status byte written); n == 0 leaves the flag alone
#[kani::proof]
#[kani::unwind(6)]
fn adapter_write_marks_dirty() {
    let sel: u8 = kani::any();
    kani::assume(sel < 3);
    let mut bpb = sel_bpb(sel);
    let m: u8 = kani::any();
    bpb.reserved_1 = m;
    let cur = any_flags();
    // reachable states: current is decode(m) possibly with dirty added
    kani::assume(cur.io_error == (m & 2 != 0) && (cur.dirty || m & 1 == 0));
    let mut dev = NdDev::new();
    dev.short_io = true;
    let fs = mk_fs(dev, bpb, FsInfoSector::default(), cur, opts(false, SymTime::any()));
    let buf = [0x5Au8; 4];
    let len: usize = kani::any();
    kani::assume(len <= 4);
    let mut io = FsIoAdapter { fs: &fs };
    let r = io.write(&buf[..len]);
    assert!(r.is_ok());
    let n = r.unwrap();
    assert!(n <= len);
    {
        let d = fs.disk.borrow();
        assert!(matches!(d.log[0], Op::Write(0, _)));
        if n > 0 {
            assert!(fs.current_status_flags.get().dirty);
            if !cur.dirty {
                assert!(d.nwrites == 2 && d.last_write_byte & 1 == 1);
                assert!(d.log[2] == Op::Write(status_offset(fs.fat_type()), 1));
            } else {
                assert!(d.nwrites == 1);
            }
        } else {
            assert!(d.nwrites == 1 && fs.current_status_flags.get() == cur);
        }
    }
    kani::cover!(n > 0 && !cur.dirty);
    kani::cover!(n == 0);
    core::mem::forget(fs);
}

// ------------------------------------------------------------------------------------------------
// unmount / fs-info write-back (C04, C05, C11, C12, C13)
// ------------------------------------------------------------------------------------------------

// @obl props=C04,C05,C11,C12 tier=quick fns=FileSystem::unmount_internal,FileSystem::flush_fs_info,FsInfoSector::serialize
// @desc FAT32, forall fs_info (count, hint, dirty) and dirty state: unmount writes the 512-byte FS-info image (signatures, that count, that hint, zeros) at fs_info_sector*bytes_per_sector iff fs_info.dirty, clears fs_info.dirty, then clears the dirty bit; no byte outside the FS-info sector and the status byte (0x41) changes
#[kani::proof]
#[kani::unwind(514)]
fn unmount_fat32_writes_fsinfo() {
    let bpb = bpb_fat32();
    let info = any_fs_info();
    let was_dirty: bool = kani::any();
    let cur = FsStatusFlags { dirty: was_dirty, io_error: false };
    let mut dev = MemDev::<1024>::zeroed();
    let fill: u8 = kani::any();
    dev.data[0x41] = if was_dirty { 1 } else { 0 };
    dev.data[100] = fill;
    dev.data[600] = fill;
    dev.data[1023] = fill;
    let fs = mk_fs(dev, bpb, info.clone(), cur, opts(false, SymTime::any()));
    assert!(fs.unmount_internal().is_ok());
    {
        let d = fs.disk.borrow();
        let b = &d.data;
        if info.dirty {
            assert!(le32(b, 512) == 0x4161_5252 && le32(b, 512 + 484) == 0x6141_7272 && le32(b, 512 + 508) == 0xAA55_0000);
            assert!(le32(b, 512 + 488) == info.free_cluster_count.unwrap_or(0xFFFF_FFFF));
            assert!(le32(b, 512 + 492) == info.next_free_cluster.unwrap_or(0xFFFF_FFFF));
            assert!(b[600] == 0 && b[1023] == 0xAA);
        } else {
            assert!(b[600] == fill && b[1023] == fill && b[512] == 0);
        }
        assert!(b[100] == fill);
        assert!(b[0x41] == 0);
        assert!(b[0x25] == 0 && b[0x40] == 0 && b[0x42] == 0);
        assert!(!fs.fs_info.borrow().dirty);
        assert!(!fs.current_status_flags.get().dirty);
    }
    kani::cover!(info.dirty && was_dirty);
    kani::cover!(!info.dirty);
    core::mem::forget(fs);
}

// @obl props=C05,C12,C13 tier=quick fns=FileSystem::unmount_internal,FileSystem::flush_fs_info
// @desc FAT12/16, forall fs_info and flags: unmount never writes an FS-info sector (only the status byte at 0x25, and only if the dirty bit has to change)
#[kani::proof]
#[kani::unwind(4)]
fn unmount_fat16_no_fsinfo() {
    let sel: u8 = kani::any();
    kani::assume(sel < 2);
    let bpb = sel_bpb(sel);
    let cur = any_flags();
    kani::assume(!cur.io_error);
    let fs = mk_fs(NdDev::new(), bpb, any_fs_info(), cur, opts(false, SymTime::any()));
    assert!(fs.unmount_internal().is_ok());
    {
        let d = fs.disk.borrow();
        if cur.dirty {
            assert!(d.nlog == 2 && d.log[0] == Op::Seek(0x25) && d.log[1] == Op::Write(0x25, 1) && d.last_write_byte == 0);
        } else {
            assert!(d.nlog == 0);
        }
    }
    kani::cover!(cur.dirty);
    core::mem::forget(fs);
}

// @obl props=C13 tier=quick fns=FileSystem::unmount_internal,FileSystem::set_dirty_flag,FileSystem::flush_fs_info
// @desc from a clean state (fs_info.dirty = false, current flags = mount-time flags), any FAT type, any mount-time status byte: Drop/unmount of the FileSystem issues no device write at all (write-forbidden device)
#[kani::proof]
#[kani::unwind(4)]
fn drop_clean_fs_nowrite() {
    let sel: u8 = kani::any();
    kani::assume(sel < 3);
    let mut bpb = sel_bpb(sel);
    bpb.reserved_1 = kani::any();
    let mut info = any_fs_info();
    info.dirty = false;
    let cur = bpb.status_flags();
    let fs = mk_fs(NdDev::read_only(), bpb, info, cur, opts(false, SymTime::any()));
    drop(fs); // runs the real Drop impl
    kani::cover!(true);
}

// ------------------------------------------------------------------------------------------------
// free-space accounting at FileSystem level (C05) - table functions replaced by their contracts
// ------------------------------------------------------------------------------------------------

// Contract stub of table::alloc_cluster (its contract is proved in the Verus unit `table_alloc` and by the
// bounded Kani twins in table.rs): Ok(c) => 2 <= c < total+2; or an error.
pub(crate) fn stub_alloc_cluster<S, E>(
    _fat: &mut S,
    _fat_type: FatType,
    _prev_cluster: Option<u32>,
    _hint: Option<u32>,
    total_clusters: u32,
) -> Result<u32, Error<E>>
where
    S: Read + Write + Seek,
    E: crate::error::IoError,
    Error<E>: From<S::Error>,
{
    if kani::any() {
        let c: u32 = kani::any();
        kani::assume(c >= RESERVED_FAT_ENTRIES && c < total_clusters + RESERVED_FAT_ENTRIES);
        Ok(c)
    } else {
        Err(Error::NotEnoughSpace)
    }
}

/// stub of write_zeros for contexts in which zeroing must not happen (regular files): reaching it is a violation
pub(crate) fn stub_no_zeros<IO: ReadWriteSeek>(_disk: &mut IO, _len: u64) -> Result<(), IO::Error> {
    assert!(false, "a cluster allocated for a regular file must not be zeroed through write_zeros");
    Ok(())
}

pub(crate) static mut ZEROED_LEN: u64 = 0;

/// contract stub of write_zeros (its own contract: write_zeros_contract / Verus): advances the stream by len
pub(crate) fn stub_zeros_contract<IO: ReadWriteSeek>(disk: &mut IO, len: u64) -> Result<(), IO::Error> {
    unsafe { ZEROED_LEN = len };
    disk.seek(SeekFrom::Current(len as i64))?;
    Ok(())
}

fn alloc_counts(bpb: BiosParameterBlock, zero: bool) {
    let total = bpb.total_clusters();
    let cs = bpb.cluster_size() as u64;
    let first_data = bpb.first_data_sector() as u64;
    let spc = bpb.sectors_per_cluster as u64;
    let bps = bpb.bytes_per_sector as u64;
    let info = any_fs_info();
    kani::assume(fs_info_in_range(&info, total));
    // inv_count + alloc contract: a successful allocation implies the (exact) count was >= 1
    if let Some(n) = info.free_cluster_count {
        kani::assume(n >= 1);
    }
    let fs = mk_fs(NdDev::new(), bpb, info.clone(), FsStatusFlags { dirty: true, io_error: false }, opts(false, SymTime::any()));
    let prev = if kani::any() { Some(kani::any()) } else { None };
    let r = fs.alloc_cluster(prev, zero);
    let now = fs.fs_info.borrow().clone();
    match &r {
        Ok(c) => {
            let c = *c;
            assert!(c >= 2 && c < total + 2);
            assert!(now.free_cluster_count == info.free_cluster_count.map(|n| n - 1));
            assert!(now.next_free_cluster == Some(c + 1));
            assert!(now.dirty);
            assert!(fs_info_in_range(&now, total));
            let d = fs.disk.borrow();
            if zero {
                let start = (first_data + (c as u64 - 2) * spc) * bps;
                assert!(d.log[0] == Op::Seek(start));
                assert!(d.all_written_zero);
                assert!(d.pos == start + cs);
                assert!(d.nwrites as u64 == cs / 512);
                assert!(!d.overflow);
            } else {
                assert!(d.nlog == 0);
            }
        }
        Err(e) => {
            assert!(matches!(e, Error::NotEnoughSpace));
            assert!(now.free_cluster_count == info.free_cluster_count && now.next_free_cluster == info.next_free_cluster);
            assert!(fs.disk.borrow().nlog == 0);
        }
    }
    kani::cover!(r.is_ok() && info.free_cluster_count.is_some());
    kani::cover!(r.is_err());
    core::mem::forget(fs);
}

// @obl props=C05,C11,C20 tier=quick fns=FileSystem::alloc_cluster,FsInfoSector::map_free_clusters,FsInfoSector::set_next_free_cluster,write_zeros,FileSystem::offset_from_cluster
// @desc FAT12 fixture, forall in-range fs_info, prev, zero flag, with table::alloc_cluster replaced by its contract: Ok(c) => cached free count decremented by exactly 1 (no underflow under inv_count), hint := c+1 <= total+2, fs_info dirty; zero=true => exactly cluster_size zero bytes written starting at offset_from_cluster(c) (inside cluster c); Err => counters and device untouched
#[kani::proof]
#[kani::unwind(20)]
#[kani::stub(crate::table::alloc_cluster, stub_alloc_cluster)]
fn alloc_cluster_counts_fat12() {
    alloc_counts(bpb_fat12(), kani::any());
}

// @obl props=C05,C11,C20 tier=quick fns=FileSystem::alloc_cluster,FsInfoSector::map_free_clusters,FsInfoSector::set_next_free_cluster,write_zeros,FileSystem::offset_from_cluster
// @desc FAT16 fixture: contract of alloc_cluster_counts_fat12
#[kani::proof]
#[kani::unwind(20)]
#[kani::stub(crate::table::alloc_cluster, stub_alloc_cluster)]
fn alloc_cluster_counts_fat16() {
    alloc_counts(bpb_fat16(), kani::any());
}

// @obl props=C05,C11,C20 tier=quick fns=FileSystem::alloc_cluster,FsInfoSector::map_free_clusters,FsInfoSector::set_next_free_cluster,write_zeros,FileSystem::offset_from_cluster
// @desc FAT32 fixture: contract of alloc_cluster_counts_fat12
#[kani::proof]
#[kani::unwind(20)]
#[kani::stub(crate::table::alloc_cluster, stub_alloc_cluster)]
fn alloc_cluster_counts_fat32() {
    alloc_counts(bpb_fat32(), kani::any());
}

pub(crate) fn stub_count_free<S, E>(_fat: &mut S, _fat_type: FatType, total_clusters: u32) -> Result<u32, Error<E>>
where
    S: Read + Seek,
    E: crate::error::IoError,
    Error<E>: From<S::Error>,
{
    if kani::any() {
        let n: u32 = kani::any();
        kani::assume(n <= total_clusters);
        unsafe { STUB_COUNT = n };
        Ok(n)
    } else {
        Err(Error::CorruptedFileSystem)
    }
}

static mut STUB_COUNT: u32 = 0;

// @obl props=C05,C13 tier=quick fns=FileSystem::stats,FileSystem::recalc_free_clusters,FsInfoSector::set_free_cluster_count
// @desc forall fs_info, FAT type, write-forbidden device, count_free_clusters replaced by its contract: stats() returns the cached count if there is one (no table access, no latch touched), else the recount, which it caches (fs_info.dirty set: the one documented FAT32 exception); cluster size and total are the geometry's; never writes to the device
#[kani::proof]
#[kani::unwind(4)]
#[kani::stub(crate::table::count_free_clusters, stub_count_free)]
fn stats_contract() {
    let sel: u8 = kani::any();
    kani::assume(sel < 3);
    let bpb = sel_bpb(sel);
    let total = bpb.total_clusters();
    let cs = bpb.cluster_size();
    let info = any_fs_info();
    let fs = mk_fs(NdDev::read_only(), bpb, info.clone(), any_flags(), opts(false, SymTime::any()));
    let r = fs.stats();
    let now = fs.fs_info.borrow().clone();
    match &r {
        Ok(s) => {
            assert!(s.cluster_size() == cs && s.total_clusters() == total);
            match info.free_cluster_count {
                Some(n) => {
                    assert!(s.free_clusters() == n);
                    assert!(now.dirty == info.dirty && now.free_cluster_count == Some(n));
                    assert!(fs.disk.borrow().nlog == 0);
                }
                None => {
                    let counted = unsafe { STUB_COUNT };
                    assert!(s.free_clusters() == counted);
                    assert!(now.free_cluster_count == Some(counted) && now.dirty);
                }
            }
        }
        Err(_) => {
            assert!(info.free_cluster_count.is_none());
            assert!(now.free_cluster_count.is_none() && now.dirty == info.dirty);
        }
    }
    assert!(now.next_free_cluster == info.next_free_cluster);
    kani::cover!(r.is_ok() && info.free_cluster_count.is_none());
    kani::cover!(r.is_ok() && info.free_cluster_count.is_some());
    core::mem::forget(fs);
}

// @obl props=C03,C05 tier=quick fns=FileSystem::truncate_cluster_chain,FileSystem::free_cluster_chain,FileSystem::cluster_iter,FsInfoSector::map_free_clusters
// @desc forall fs_info, FAT type fixture, start cluster, either operation, ClusterIterator::truncate / free replaced by their contracts (Verus unit table_iter): the chain operation is started at exactly the given cluster with the volume's FAT type; on success the cached free count grows by exactly the number of clusters the operation reports freed (an unknown count stays unknown) and the FS-info record is marked for write-back whenever the count changed; the allocation hint is untouched; on an error the cached record is unchanged
#[kani::proof]
#[kani::unwind(4)]
#[kani::stub(crate::table::ClusterIterator::truncate, crate::table::verif_kani::stub_iter_truncate)]
#[kani::stub(crate::table::ClusterIterator::free, crate::table::verif_kani::stub_iter_free)]
fn chain_glue_counts() {
    use crate::table::verif_kani::{G_ITER_CLUSTER, G_ITER_FREED, G_ITER_FT, G_ITER_OP};
    let sel: u8 = kani::any();
    kani::assume(sel < 3);
    let bpb = sel_bpb(sel);
    let total = bpb.total_clusters();
    let info = any_fs_info();
    let fs = mk_fs(NdDev::read_only(), bpb, info.clone(), any_flags(), opts(false, SymTime::any()));
    let c: u32 = kani::any();
    kani::assume(c >= 2 && c < total + 2);
    let whole: bool = kani::any();
    // (clusters reported freed were allocated before: count + freed <= total is the callee's postcondition on inv_count)
    let freed: u32 = kani::any();
    if let Some(n) = info.free_cluster_count {
        kani::assume(n as u64 + freed as u64 <= total as u64);
    }
    unsafe { G_ITER_FREED = freed };
    let r = if whole { fs.free_cluster_chain(c) } else { fs.truncate_cluster_chain(c) };
    let now = fs.fs_info.borrow().clone();
    let (ic, ift, op) = unsafe { (G_ITER_CLUSTER, G_ITER_FT, G_ITER_OP) };
    assert!(ic == Some(c) && ift == Some(fs.fat_type()));
    assert!(op == if whole { 2 } else { 1 });
    match r {
        Ok(()) => {
            assert!(now.free_cluster_count == info.free_cluster_count.map(|n| n + freed));
            if now.free_cluster_count != info.free_cluster_count {
                assert!(now.dirty);
            }
            assert!(now.dirty || !info.dirty);
        }
        Err(_) => {
            assert!(now.free_cluster_count == info.free_cluster_count && now.dirty == info.dirty);
        }
    }
    assert!(now.next_free_cluster == info.next_free_cluster);
    assert!(fs.disk.borrow().nlog == 0);
    kani::cover!(r.is_ok() && whole && info.free_cluster_count.is_some() && freed == 3);
    kani::cover!(r.is_err() && !whole);
    core::mem::forget(fs);
}

// ------------------------------------------------------------------------------------------------
// geometry for ALL validated volumes (C08, C10, C11, C20)
// ------------------------------------------------------------------------------------------------

fn any_valid_bpb() -> BiosParameterBlock {
    let b = crate::boot_sector::verif_kani::any_bpb();
    kani::assume(crate::boot_sector::verif_kani::bpb_validate_ok(&b));
    b
}

// @obl props=C02,C11,C20 tier=quick fns=FileSystem::offset_from_cluster,FileSystem::sector_from_cluster,FileSystem::offset_from_sector,BiosParameterBlock::sectors_from_clusters,BiosParameterBlock::bytes_from_sectors
// @desc forall BPBs accepted by validate() (up to 2^32-1 sectors x 4096 bytes) and every cluster 2 <= c < total+2 including the last: offset_from_cluster(c) = (first_data + (c-2)*spc)*bps exactly (64-bit, no 32-bit wrap on the path), lies at or after the end of the metadata regions, and the whole cluster ends inside the declared volume
#[kani::proof]
fn geom_offset_from_cluster() {
    let bpb = any_valid_bpb();
    let g = crate::boot_sector::verif_kani::geo(&bpb).unwrap();
    let bps = bpb.bytes_per_sector as u128;
    let spc = bpb.sectors_per_cluster as u128;
    let fs = mk_fs(NdDev::new(), bpb, FsInfoSector::default(), any_flags(), opts(false, SymTime::any()));
    let c: u32 = kani::any();
    kani::assume(c >= 2 && (c as u64) < g.clusters + 2);
    let off = fs.offset_from_cluster(c) as u128;
    let want = (g.first_data as u128 + (c as u128 - 2) * spc) * bps;
    assert!(off == want);
    assert!(off >= g.first_data as u128 * bps);
    assert!(off + spc * bps <= g.total as u128 * bps);
    assert!(fs.cluster_size() as u128 == spc * bps);
    kani::cover!(c as u64 == g.clusters + 1 && off > (1u128 << 43));
    core::mem::forget(fs);
}

// @obl props=C02,C20 tier=quick fns=FileSystem::bytes_from_clusters,FileSystem::clusters_from_bytes,BiosParameterBlock::clusters_from_bytes
// @desc forall validated BPBs: clusters_from_bytes(b) = ceil(b / cluster_size) for every b < 2^32 (file offsets), bytes_from_clusters(n) = n*cluster_size for n <= total clusters; no overflow
#[kani::proof]
fn geom_cluster_byte_conversions() {
    let bpb = any_valid_bpb();
    let g = crate::boot_sector::verif_kani::geo(&bpb).unwrap();
    let cs = bpb.bytes_per_sector as u64 * bpb.sectors_per_cluster as u64;
    let fs = mk_fs(NdDev::new(), bpb, FsInfoSector::default(), any_flags(), opts(false, SymTime::any()));
    let b: u32 = kani::any();
    let n = fs.clusters_from_bytes(b as u64) as u64;
    assert!(n * cs >= b as u64 && (n == 0 || (n - 1) * cs < b as u64));
    let k: u32 = kani::any();
    kani::assume(k as u64 <= g.clusters);
    assert!(fs.bytes_from_clusters(k) == k as u64 * cs);
    kani::cover!(b == u32::MAX);
    core::mem::forget(fs);
}

// @obl props=C08,C10,C11,C20 tier=quick fns=fat_slice,DiskSlice::from_sectors,DiskSlice::new,DiskSlice::write,BiosParameterBlock::mirroring_enabled,BiosParameterBlock::active_fat
// @desc forall validated BPBs with active_fat < fats when mirroring is off: the FAT slice has size sectors_per_fat*bps; a table write at offset 0 goes to reserved*bps + i*size for each i < fats when mirroring is on, and ONLY to (reserved + active_fat*spf)*bps when it is off; every target lies inside the FAT area [reserved*bps, (reserved+fats*spf)*bps); 64-bit exact
#[kani::proof]
#[kani::unwind(5)]
fn geom_fat_slice() {
    let bpb = any_valid_bpb();
    kani::assume(bpb.fats <= 3);
    let mirroring = bpb.extended_flags & 0x80 == 0;
    let active = (bpb.extended_flags & 0x0F) as u64;
    kani::assume(mirroring || active < bpb.fats as u64);
    let g = crate::boot_sector::verif_kani::geo(&bpb).unwrap();
    let bps = bpb.bytes_per_sector as u64;
    let reserved = bpb.reserved_sectors as u64;
    let fats = bpb.fats as u64;
    let mut dev = NdDev::new();
    let size;
    {
        let mut s = fat_slice::<NdDev, &mut NdDev>(&mut dev, &bpb);
        size = s.seek(SeekFrom::End(0)).unwrap();
        s.seek(SeekFrom::Start(0)).unwrap();
        assert!(s.write(&[0xAB]).unwrap() == 1);
    }
    assert!(size == g.spf * bps);
    let fat_area_begin = reserved * bps;
    let fat_area_end = (reserved + fats * g.spf) * bps;
    // device log: (seek, write) per copy, nothing else after the two slice-level seeks (which touch no device)
    if mirroring {
        assert!(dev.nwrites as u64 == fats && dev.nlog as u64 == 2 * fats);
        let i: usize = kani::any();
        kani::assume((i as u64) < fats);
        assert!(dev.log[2 * i] == Op::Seek(fat_area_begin + i as u64 * size));
        assert!(dev.log[2 * i + 1] == Op::Write(fat_area_begin + i as u64 * size, 1));
    } else {
        assert!(dev.nwrites == 1 && dev.nlog == 2);
        assert!(dev.log[1] == Op::Write((reserved + active * g.spf) * bps, 1));
    }
    let p = match dev.log[1] {
        Op::Write(p, _) => p,
        _ => 0,
    };
    assert!(p >= fat_area_begin && p < fat_area_end);
    assert!(fat_area_end <= g.first_data * bps);
    kani::cover!(mirroring && fats == 3);
    kani::cover!(!mirroring && active == 2);
}

// @obl props=C11,C20 tier=quick fns=FileSystem::root_dir,DiskSlice::from_sectors
// @desc forall validated FAT12/16 BPBs: the fixed root directory slice is [(first_data - root_sectors)*bps, first_data*bps): a write at its offset 0 lands at its begin, exactly once (mirrors = 1), and its size is root_dir_sectors*bps
#[kani::proof]
#[kani::unwind(5)]
fn geom_root_slice() {
    let bpb = any_valid_bpb();
    kani::assume(!bpb.is_fat32());
    let g = crate::boot_sector::verif_kani::geo(&bpb).unwrap();
    let bps = bpb.bytes_per_sector as u64;
    let first = bpb.first_data_sector();
    let rs = bpb.root_dir_sectors();
    let mut dev = NdDev::new();
    {
        let mut s: DiskSlice<&mut NdDev, NdDev> = DiskSlice::from_sectors(first - rs, rs, 1, &bpb, &mut dev);
        assert!(s.abs_pos() == (g.first_data - g.root_secs) * bps);
        assert!(s.seek(SeekFrom::End(0)).unwrap() == g.root_secs * bps);
        s.seek(SeekFrom::Start(0)).unwrap();
        let n = s.write(&[1u8]).unwrap();
        assert!(n == 1 || g.root_secs == 0);
    }
    if g.root_secs > 0 {
        assert!(dev.nwrites == 1 && dev.nth_write(0) == Some(((g.first_data - g.root_secs) * bps, 1)));
    }
    assert!((g.first_data - g.root_secs) == bpb.reserved_sectors as u64 + bpb.fats as u64 * g.spf);
    kani::cover!(g.root_secs > 1);
}

// ------------------------------------------------------------------------------------------------
// DiskSlice (Kani twin of the Verus unit; mirrors bounded)
// ------------------------------------------------------------------------------------------------

// @obl props=C09,C10,C11,C14 tier=quick fns=DiskSlice::write,DiskSlice::read,DiskSlice::flush
// @bound bounded: mirrors <= 3, buffer length <= 4 (unbounded version: Verus unit fs_diskslice)
// @desc forall begin, size, offset <= size, mirrors in 1..=3, len <= 4: write returns n = min(len, size-offset), issues exactly one (seek, write n) pair at begin+offset+i*size for each mirror i and nothing else, advances offset by n (n = 0: no device call); read issues one seek+read at begin+offset of min(len, size-offset) bytes; flush forwards
#[kani::proof]
#[kani::unwind(6)]
fn diskslice_write_read_contract() {
    let begin: u64 = kani::any();
    let size: u64 = kani::any();
    let mirrors: u8 = kani::any();
    kani::assume(mirrors >= 1 && mirrors <= 3);
    kani::assume(begin <= 1u64 << 45 && size <= 1u64 << 45);
    let offset: u64 = kani::any();
    kani::assume(offset <= size);
    let len: usize = kani::any();
    kani::assume(len <= 4);
    let buf = [7u8; 4];
    let mut dev = NdDev::new();
    {
        let mut s: DiskSlice<&mut NdDev, NdDev> = DiskSlice::new(begin, size, mirrors, &mut dev);
        assert!(s.seek(SeekFrom::Start(offset)).unwrap() == offset);
        let n = s.write(&buf[..len]).unwrap();
        let want = (len as u64).min(size - offset);
        assert!(n as u64 == want);
        assert!(s.abs_pos() == begin + offset + want);
        assert!(s.flush().is_ok());
    }
    let want = (len as u64).min(size - offset) as usize;
    if want == 0 {
        assert!(dev.nwrites == 0 && dev.nlog == 1);
    } else {
        assert!(dev.nwrites == mirrors as usize);
        assert!(dev.nlog == 2 * mirrors as usize + 1);
        let i: usize = kani::any();
        kani::assume(i < mirrors as usize);
        assert!(dev.log[2 * i] == Op::Seek(begin + offset + i as u64 * size));
        assert!(dev.log[2 * i + 1] == Op::Write(begin + offset + i as u64 * size, want));
    }
    assert!(dev.last_op() == Op::Flush);
    // read
    let mut dev2 = NdDev::new();
    {
        let mut s: DiskSlice<&mut NdDev, NdDev> = DiskSlice::new(begin, size, mirrors, &mut dev2);
        s.seek(SeekFrom::Start(offset)).unwrap();
        let mut rb = [0u8; 4];
        let n = s.read(&mut rb[..len]).unwrap();
        assert!(n == want);
    }
    assert!(dev2.nwrites == 0);
    assert!(dev2.log[0] == Op::Seek(begin + offset) && dev2.log[1] == Op::Read(begin + offset, want));
    kani::cover!(mirrors == 3 && want > 0 && want < len);
    kani::cover!(want == 0);
}

// @obl props=C09,C11 tier=quick fns=DiskSlice::seek
// @desc forall size, offset <= size <= 2^63 and every SeekFrom (all u64 / i64 arguments): no overflow or panic; the new offset is the mathematical target when it lies in [0, size], otherwise Err(InvalidInput) and the offset is unchanged; seek never touches the device
#[kani::proof]
fn diskslice_seek_contract() {
    let size: u64 = kani::any();
    let offset: u64 = kani::any();
    kani::assume(offset <= size);
    // i64 conversion of offset/size fails only above i64::MAX: such slices do not exist (size < 2^44)
    kani::assume(size <= i64::MAX as u64);
    let mut dev = NdDev::new();
    let mut s: DiskSlice<&mut NdDev, NdDev> = DiskSlice::new(kani::any(), size, 1, &mut dev);
    s.offset = offset;
    let sel: u8 = kani::any();
    let a: u64 = kani::any();
    let (pos, target): (SeekFrom, i128) = match sel % 3 {
        0 => (SeekFrom::Start(a), a as i128),
        1 => (SeekFrom::Current(a as i64), offset as i128 + (a as i64) as i128),
        _ => (SeekFrom::End(a as i64), size as i128 + (a as i64) as i128),
    };
    let r = s.seek(pos);
    if target >= 0 && target <= size as i128 {
        assert!(matches!(r, Ok(x) if x as i128 == target));
        assert!(s.offset as i128 == target);
    } else {
        assert!(matches!(r, Err(Error::InvalidInput)));
        assert!(s.offset == offset);
    }
    drop(s);
    assert!(dev.nlog == 0);
    kani::cover!(r.is_ok());
    kani::cover!(r.is_err());
}

// ------------------------------------------------------------------------------------------------
// misc leaves
// ------------------------------------------------------------------------------------------------

// @obl props=C08 tier=quick fns=LossyOemCpConverter::decode,LossyOemCpConverter::encode
// @desc forall bytes b and chars c: decode(b) = b as char for b < 0x80 else U+FFFD; encode(c) = Some(c as u8) iff c <= 0x7F; encode(decode(b)) = Some(b) on ASCII
#[kani::proof]
fn oem_lossy_converter() {
    let cv = LossyOemCpConverter::new();
    let b: u8 = kani::any();
    let d = cv.decode(b);
    if b < 0x80 {
        assert!(d as u32 == b as u32);
        assert!(cv.encode(d) == Some(b));
    } else {
        assert!(d == '\u{FFFD}');
    }
    let c: char = kani::any();
    match cv.encode(c) {
        Some(x) => assert!((c as u32) < 0x80 && x as u32 == c as u32),
        None => assert!((c as u32) >= 0x80),
    }
    kani::cover!(b >= 0x80);
}

fn zeros_case(len: u64) {
    let mut dev = NdDev::new();
    let start: u64 = kani::any();
    kani::assume(start < 1u64 << 40);
    dev.pos = start;
    assert!(write_zeros(&mut dev, len).is_ok());
    assert!(dev.pos == start + len && dev.all_written_zero);
    assert!(dev.nwrites as u64 == (len + 511) / 512);
}

fn pad_case(bps: u16, rem: u64) {
    let mut dev = NdDev::new();
    let k: u64 = kani::any();
    kani::assume(k < 1u64 << 28);
    let start = k * bps as u64 + rem;
    dev.pos = start;
    assert!(write_zeros_until_end_of_sector(&mut dev, bps).is_ok());
    assert!(dev.pos % bps as u64 == 0 && dev.pos - start < bps as u64 && dev.all_written_zero);
    if rem == 0 {
        assert!(dev.nwrites == 0 && dev.pos == start);
    } else {
        assert!(dev.pos == start + (bps as u64 - rem));
    }
}

// @obl props=C06,C05 tier=thorough timeout=3000 fns=write_zeros,write_zeros_until_end_of_sector
// @bound bounded: length 1025 (three chunks) and (sector size 512, remainder 90); start position symbolic; unbounded version: Verus unit fs_zeros
// @desc write_zeros writes exactly len bytes, all zero, in chunks of at most 512, starting at the current position; write_zeros_until_end_of_sector pads exactly to the next sector boundary and writes nothing when already aligned
#[kani::proof]
#[kani::unwind(12)]
fn write_zeros_contract() {
    if kani::any() {
        zeros_case(1025);
    } else {
        pad_case(512, 90);
    }
    kani::cover!(true);
}

// ------------------------------------------------------------------------------------------------
// mounting (C07, C13)
// ------------------------------------------------------------------------------------------------

// (not registered as an obligation: did not finish within 7 minutes; kept for reference)
// obl-disabled fns=FileSystem::new
// @bound bounded: the FAT32 fixture geometry (concrete valid boot sector built with the real serializer); the status byte and the FS-info count / hint are symbolic
// @desc mounting a valid FAT32 volume, for every status byte and every stored free count / next-free hint: Ok; no device write; the FS-info write-back latch is CLEAR (a read-only session that ends in unmount therefore writes nothing); the stored count is dropped when the dirty bit is set or it exceeds the cluster count; the hint is dropped outside [2, total+2]; the in-memory flags are the decoded status byte
#[kani::proof]
#[kani::unwind(514)]
fn new_on_valid_fat32() {
    let mut bpb = bpb_fat32();
    let m: u8 = kani::any();
    bpb.reserved_1 = m;
    bpb.ext_sig = 0x29;
    let total = bpb.total_clusters();
    let boot = crate::boot_sector::verif_kani::boot_image(bpb);
    let count: u32 = kani::any();
    let hint: u32 = kani::any();
    let mut dev = MemDev::<1024>::zeroed();
    let mut i = 0;
    while i < 512 {
        dev.data[i] = boot[i];
        i += 1;
    }
    dev.pos = 512;
    let info = FsInfoSector { free_cluster_count: Some(count), next_free_cluster: Some(hint), dirty: false };
    assert!(info.serialize(&mut dev).is_ok());
    dev.pos = 0;
    dev.writes = 0;
    let r = FileSystem::new(dev, opts(false, SymTime::fixed()));
    assert!(r.is_ok());
    let fs = r.unwrap();
    assert!(fs.fat_type == FatType::Fat32 && fs.total_clusters == total);
    {
        let fi = fs.fs_info.borrow();
        assert!(!fi.dirty);
        let want_count = if m & 1 != 0 || count == 0xFFFF_FFFF || count > total { None } else { Some(count) };
        assert!(fi.free_cluster_count == want_count);
        let want_hint = if hint == 0xFFFF_FFFF || hint < 2 || hint > total + 2 { None } else { Some(hint) };
        assert!(fi.next_free_cluster == want_hint);
    }
    assert!(fs.current_status_flags.get() == FsStatusFlags::decode(m));
    assert!(fs.disk.borrow().writes == 0);
    kani::cover!(m & 1 != 0);
    kani::cover!(count <= total && m & 1 == 0);
    core::mem::forget(fs);
}

// (not registered as an obligation: did not finish within 7 minutes; kept for reference)
// obl-disabled fns=FileSystem::new
// @desc FileSystem::new over a write-forbidden device that returns ARBITRARY bytes for the boot sector and the FS-info sector, strict and non-strict: returns Ok or Err(CorruptedFileSystem) (no fault is injected), never panics or overflows, never writes; on Ok the volume geometry satisfies wf_bpb, the cached FAT type / first data sector / root sectors / cluster count are the derived ones, the FS-info write-back latch is clear, the cached free count is dropped if the dirty bit was set and otherwise <= total clusters, the hint lies in [2, total+2], and the in-memory status flags equal the mount-time byte
#[kani::proof]
#[kani::unwind(14)]
fn new_total() {
    let mut dev = NdDev::read_only();
    // the 448/420-byte boot code and the 480-byte FS-info filler are never inspected by the code under proof:
    // reads of 64 bytes or more leave the buffer as it is (zero); every other byte of both sectors is symbolic
    dev.nofill = true;
    dev.nofill_min = 64;
    let mut o = opts(false, SymTime::fixed());
    o.strict = kani::any();
    let r = FileSystem::new(dev, o);
    match &r {
        Ok(fs) => {
            assert!(crate::boot_sector::verif_kani::wf_bpb(&fs.bpb));
            let g = crate::boot_sector::verif_kani::geo(&fs.bpb).unwrap();
            assert!(fs.total_clusters as u64 == g.clusters && fs.first_data_sector as u64 == g.first_data);
            assert!(fs.root_dir_sectors as u64 == g.root_secs);
            assert!(fs.fat_type == FatType::from_clusters(fs.total_clusters));
            assert!((fs.fat_type == FatType::Fat32) == g.fat32);
            let info = fs.fs_info.borrow();
            assert!(!info.dirty);
            assert!(fs_info_in_range(&info, fs.total_clusters));
            if fs.bpb.reserved_1 & 1 != 0 {
                assert!(info.free_cluster_count.is_none());
            }
            if !g.fat32 {
                assert!(info.free_cluster_count.is_none() && info.next_free_cluster.is_none());
            }
            assert!(fs.current_status_flags.get() == FsStatusFlags::decode(fs.bpb.reserved_1));
            assert!(fs.disk.borrow().nwrites == 0);
        }
        Err(e) => assert!(matches!(e, Error::CorruptedFileSystem)),
    }
    kani::cover!(matches!(&r, Ok(fs) if fs.fat_type == FatType::Fat32 && fs.bpb.reserved_1 & 1 != 0));
    kani::cover!(matches!(&r, Ok(fs) if fs.fat_type == FatType::Fat12));
    kani::cover!(r.is_err());
    if let Ok(fs) = r {
        core::mem::forget(fs);
    }
}

// @obl props=C04,C05,C11 tier=quick fns=FileSystem::flush_fs_info,FileSystem::unmount_internal,FileSystem::offset_from_sector timeout=900
// @desc for EVERY validated FAT32 BPB (every sector size 512..4096, every FS-info sector number below the reserved count) with a dirty FS-info cache: unmount seeks to fs_info_sector * bytes_per_sector - where mount reads it from - and writes exactly 512 bytes there (7 writes: signature, 480 zeros, signature, count, hint, 12 zeros, signature), inside the reserved area; then the status byte
#[kani::proof]
#[kani::unwind(10)]
fn unmount_fsinfo_location() {
    let bpb = any_valid_bpb();
    kani::assume(bpb.is_fat32());
    let bps = bpb.bytes_per_sector as u64;
    let want = bpb.fs_info_sector as u64 * bps;
    let reserved_end = bpb.reserved_sectors as u64 * bps;
    let mut info = any_fs_info();
    info.dirty = true;
    let cur = FsStatusFlags::decode(bpb.reserved_1);
    let fs = mk_fs(NdDev::new(), bpb, info, cur, opts(false, SymTime::fixed()));
    assert!(fs.unmount_internal().is_ok());
    {
        let d = fs.disk.borrow();
        assert!(d.log[0] == Op::Seek(want));
        assert!(d.log[1] == Op::Write(want, 4));
        assert!(d.log[2] == Op::Write(want + 4, 480));
        assert!(d.log[7] == Op::Write(want + 508, 4));
        assert!(d.nwrites == 7 && d.nlog == 8);
        assert!(want + 512 <= reserved_end);
    }
    kani::cover!(bps == 4096 && want == 3 * 4096);
    core::mem::forget(fs);
}

fn slice_fault_case(k: usize) {
    let mut dev = NdDev::fault_at(k);
    dev.log_on = true;
    let buf = [0x11u8, 0x22];
    let r = {
        let mut s: DiskSlice<&mut NdDev, NdDev> = DiskSlice::new(1024, 512, 3, &mut dev);
        s.offset = 10;
        let r = s.write(&buf);
        if r.is_ok() {
            assert!(s.offset == 12);
        } else {
            assert!(s.offset == 10);
        }
        r
    };
    // three mirrors => six device calls (seek, write) x 3; every one of them is checked
    if k < 6 {
        assert!(dev.fault_fired);
        match r {
            Err(Error::Io(e)) => assert!(e.tag == dev.first_tag),
            _ => assert!(false, "storage error on a FAT copy swallowed by DiskSlice::write"),
        }
    } else {
        assert!(!dev.fault_fired && matches!(r, Ok(2)) && dev.nwrites == 3);
    }
}

// @obl props=C09,C10 tier=quick fns=DiskSlice::write,DiskSlice::flush,DiskSlice::read
// @desc DiskSlice with three mirrors (a FAT with three copies): a storage error at ANY of the six device calls of one table write (seek or write of the first, second or third copy) is returned as Err(Io(e)) carrying that error and the slice offset does not advance - an error while updating a backup copy is not dropped; likewise flush and read forward the device's error
#[kani::proof]
#[kani::unwind(6)]
fn diskslice_write_faults() {
    let sel: u8 = kani::any();
    match sel {
        0 => slice_fault_case(0),
        1 => slice_fault_case(1),
        2 => slice_fault_case(2),
        3 => slice_fault_case(3),
        4 => slice_fault_case(4),
        5 => slice_fault_case(5),
        _ => slice_fault_case(usize::MAX),
    }
    // flush / read
    let mut dev = NdDev::fault_at(if kani::any() { 0 } else { 1 });
    let mut s: DiskSlice<&mut NdDev, NdDev> = DiskSlice::new(1024, 512, 1, &mut dev);
    let which: bool = kani::any();
    let mut b = [0u8; 2];
    let res = if which { s.flush().map(|_| 0usize) } else { s.read(&mut b) };
    drop(s);
    if dev.fault_fired {
        assert!(matches!(res, Err(Error::Io(e)) if e.tag == dev.first_tag));
    }
    kani::cover!(dev.fault_fired);
    kani::cover!(sel == 3);
}


/// contract stub of FsInfoSector::deserialize (contract proved by fsinfo_parse): Ok with any count, a hint that is
/// never 0 or 1, and a CLEAR write-back latch; or CorruptedFileSystem
pub(crate) fn stub_fsinfo_deserialize<R: Read>(_rdr: &mut R) -> Result<FsInfoSector, Error<R::Error>> {
    if kani::any() {
        let hint: Option<u32> = if kani::any() { Some(kani::any()) } else { None };
        if let Some(h) = hint {
            kani::assume(h >= 2 && h != 0xFFFF_FFFF);
        }
        let count: Option<u32> = if kani::any() { Some(kani::any()) } else { None };
        if let Some(c) = count {
            kani::assume(c != 0xFFFF_FFFF);
        }
        Ok(FsInfoSector { free_cluster_count: count, next_free_cluster: hint, dirty: false })
    } else {
        Err(Error::CorruptedFileSystem)
    }
}

// @obl props=C05,C07,C12,C13 tier=thorough fns=FileSystem::new,BootSector::validate,FsInfoSector::validate_and_fix timeout=3000
// @desc FileSystem::new with the two sector decoders replaced by their contracts (ANY decoded boot sector, ANY decoded FS-info), strict and non-strict, write-forbidden device: Ok or Err(CorruptedFileSystem); never panics or overflows; never writes; on Ok the cached FAT type / first data sector / root sectors / cluster count are the BPB-derived ones (whose correctness is validate_sound / derived_equal_independent); the FS-info write-back latch is CLEAR (so a read-only session ending in unmount writes nothing); the cached free count is dropped if the dirty bit was set and is otherwise <= total clusters; the hint lies in [2, total+2]; FAT12/16 volumes carry no FS-info values; the in-memory status flags are the decoded status byte
#[kani::proof]
#[kani::unwind(6)]
#[kani::stub(crate::boot_sector::BootSector::deserialize, crate::boot_sector::verif_kani::stub_boot_deserialize)]
#[kani::stub(FsInfoSector::deserialize, stub_fsinfo_deserialize)]
fn new_modular() {
    let dev = NdDev::read_only();
    let mut o = opts(false, SymTime::fixed());
    o.strict = kani::any();
    let r = FileSystem::new(dev, o);
    match &r {
        Ok(fs) => {
            // (that an accepted BPB satisfies wf_bpb and that the bpb helpers equal the independent derivation are
            // the obligations validate_sound / derived_equal_independent; here: what `new` caches and latches)
            assert!(fs.total_clusters == fs.bpb.total_clusters() && fs.first_data_sector == fs.bpb.first_data_sector());
            assert!(fs.root_dir_sectors == fs.bpb.root_dir_sectors());
            assert!(fs.fat_type == FatType::from_clusters(fs.total_clusters));
            let fat32 = fs.bpb.is_fat32();
            assert!((fs.fat_type == FatType::Fat32) == fat32);
            let info = fs.fs_info.borrow();
            assert!(!info.dirty);
            assert!(fs_info_in_range(&info, fs.total_clusters));
            if fs.bpb.reserved_1 & 1 != 0 {
                assert!(info.free_cluster_count.is_none());
            }
            if !fat32 {
                assert!(info.free_cluster_count.is_none() && info.next_free_cluster.is_none());
            }
            assert!(fs.current_status_flags.get() == FsStatusFlags::decode(fs.bpb.reserved_1));
            let d = fs.disk.borrow();
            assert!(d.nwrites == 0);
            if fat32 {
                // the FS-info sector is read from fs_info_sector * bytes_per_sector
                assert!(d.log[d.nlog - 1] == Op::Seek(fs.bpb.fs_info_sector as u64 * fs.bpb.bytes_per_sector as u64));
            }
        }
        Err(e) => assert!(matches!(e, Error::CorruptedFileSystem)),
    }
    kani::cover!(matches!(&r, Ok(fs) if fs.fat_type == FatType::Fat32 && fs.bpb.reserved_1 & 1 != 0));
    kani::cover!(matches!(&r, Ok(fs) if fs.fat_type == FatType::Fat12));
    kani::cover!(r.is_err());
    if let Ok(fs) = r {
        core::mem::forget(fs);
    }
}
