// Kani obligations for src/table.rs.  The unbounded (any table size) contracts of the table loops are the Verus
// units; what is here is (a) complete, loop-free proofs over all raw entry values / cluster numbers and
// (b) bounded twins on small symbolic tables that give replayable counterexamples.
#![allow(dead_code, unused_imports, unused_variables, unused_mut)]
use super::*;
use crate::verif_common::*;

// ---- specification vocabulary (DESIGN.md 4.3), arithmetic, written from the FAT specification ----

pub(crate) fn ent12(b: &[u8], k: usize) -> u32 {
    let off = k + k / 2;
    let v = le16(b, off) as u32;
    if k % 2 == 1 {
        v >> 4
    } else {
        v & 0xFFF
    }
}
pub(crate) fn ent16(b: &[u8], k: usize) -> u32 {
    le16(b, 2 * k) as u32
}
pub(crate) fn ent32(b: &[u8], k: usize) -> u32 {
    le32(b, 4 * k)
}

pub(crate) fn class_w(ft: FatType, raw: u32) -> FatValue {
    let (mask, bad, eoc) = match ft {
        FatType::Fat12 => (0xFFFu32, 0xFF7u32, 0xFF8u32),
        FatType::Fat16 => (0xFFFF, 0xFFF7, 0xFFF8),
        FatType::Fat32 => (0x0FFF_FFFF, 0x0FFF_FFF7, 0x0FFF_FFF8),
    };
    let v = raw & mask;
    if v == 0 {
        FatValue::Free
    } else if v == bad {
        FatValue::Bad
    } else if v >= eoc {
        FatValue::EndOfChain
    } else {
        FatValue::Data(v)
    }
}

fn any_ft() -> FatType {
    let s: u8 = kani::any();
    match s % 3 {
        0 => FatType::Fat12,
        1 => FatType::Fat16,
        _ => FatType::Fat32,
    }
}

// @obl props=C03,C08,C10 tier=quick fns=Fat12::get,Fat12::get_raw,Fat16::get,Fat16::get_raw,Fat32::get,Fat32::get_raw,read_fat
// @desc forall cluster numbers < 2^28 and EVERY raw entry value (the device returns arbitrary bytes): read_fat seeks to the specified entry offset (k + k/2, 2k, 4k), and classifies the entry exactly as the specification says: 0 free, ..F7 bad, ..F8-..FF end of chain (every legal marker), else next cluster; FAT32 ignores the top four bits; cluster numbers in the FAT32 special range are reported Bad
#[kani::proof]
#[kani::unwind(6)]
fn classify_all_raw() {
    let ft = any_ft();
    let k: u32 = kani::any();
    kani::assume(k <= 0x1000_0001); // cluster numbers never exceed total_clusters + 1 <= 2^28 + 1
    let mut dev = NdDev::new();
    let r = read_fat::<NdDev, DevErr>(&mut dev, ft, k);
    assert!(r.is_ok());
    let v = r.unwrap();
    let want_off = match ft {
        FatType::Fat12 => k as u64 + (k / 2) as u64,
        FatType::Fat16 => k as u64 * 2,
        FatType::Fat32 => k as u64 * 4,
    };
    assert!(dev.log[0] == Op::Seek(want_off));
    assert!(dev.nwrites == 0);
    let raw = match ft {
        FatType::Fat12 => {
            let p = (dev.last_read[0] as u32) | ((dev.last_read[1] as u32) << 8);
            if k & 1 == 1 { p >> 4 } else { p & 0xFFF }
        }
        FatType::Fat16 => (dev.last_read[0] as u32) | ((dev.last_read[1] as u32) << 8),
        FatType::Fat32 => le32(&dev.last_read, 0),
    };
    if ft == FatType::Fat32 && k >= 0x0FFF_FFF7 && k <= 0x0FFF_FFFF && !matches!(class_w(ft, raw), FatValue::EndOfChain)
        && class_w(ft, raw) != FatValue::Bad
    {
        // special cluster numbers are never handed out as free or as chain members
        assert!(v == FatValue::Bad);
    } else {
        assert!(v == class_w(ft, raw));
    }
    kani::cover!(ft == FatType::Fat12 && v == FatValue::EndOfChain && raw == 0xFF8);
    kani::cover!(ft == FatType::Fat32 && raw & 0xF000_0000 != 0 && v == FatValue::Free);
    kani::cover!(ft == FatType::Fat16 && matches!(v, FatValue::Data(_)));
}

// @obl props=C12,C08 tier=quick fns=read_fat_flags
// @desc forall raw values of FAT entry 1: FAT16 dirty = bit 15 clear, io_error = bit 14 clear; FAT32 bits 27 / 26; FAT12 carries no flags (always clean, no device access)
#[kani::proof]
#[kani::unwind(6)]
fn fat_flags_all_raw() {
    let ft = any_ft();
    let mut dev = NdDev::new();
    let r = read_fat_flags::<NdDev, DevErr>(&mut dev, ft);
    assert!(r.is_ok());
    let f = r.unwrap();
    match ft {
        FatType::Fat12 => assert!(!f.dirty && !f.io_error && dev.nlog == 0),
        FatType::Fat16 => {
            let raw = (dev.last_read[0] as u32) | ((dev.last_read[1] as u32) << 8);
            assert!(dev.log[0] == Op::Seek(2));
            assert!(f.dirty == (raw & 0x8000 == 0) && f.io_error == (raw & 0x4000 == 0));
        }
        FatType::Fat32 => {
            let raw = le32(&dev.last_read, 0);
            assert!(dev.log[0] == Op::Seek(4));
            assert!(f.dirty == (raw & 0x0800_0000 == 0) && f.io_error == (raw & 0x0400_0000 == 0));
        }
    }
    assert!(dev.nwrites == 0);
    kani::cover!(f.dirty && !f.io_error);
}

const T12: usize = 26; // 16 entries + slack for the 2-byte window of the last one
const T16: usize = 32;
const T32: usize = 64;
const NENT: usize = 16;

fn value_in_range(ft: FatType, v: FatValue) -> bool {
    match v {
        FatValue::Data(n) => {
            n >= 2
                && match ft {
                    FatType::Fat12 => n < 0xFF7,
                    FatType::Fat16 => n < 0xFFF7,
                    FatType::Fat32 => n < 0x0FFF_FFF7,
                }
        }
        _ => true,
    }
}

fn any_value() -> FatValue {
    let s: u8 = kani::any();
    match s % 4 {
        0 => FatValue::Free,
        1 => FatValue::Bad,
        2 => FatValue::EndOfChain,
        _ => FatValue::Data(kani::any()),
    }
}

// @obl props=C03,C08,C10 tier=quick fns=Fat12::set,Fat12::set_raw,Fat12::get
// @bound bounded: 16-entry table (all 26 bytes symbolic); entry arithmetic itself is size-independent; unbounded frame: Verus unit table_fat12
// @desc FAT12, forall table contents, k < 16, value: after set, get(k) = value and EVERY other entry j != k keeps its raw 12 bits (the neighbour sharing a byte included); bytes outside the two-byte window are untouched
#[kani::proof]
#[kani::unwind(6)]
fn fat12_set_frame() {
    let mut dev = MemDev::<T12>::any();
    let old = dev.data;
    let k: usize = kani::any();
    kani::assume(k < NENT);
    let v = any_value();
    kani::assume(value_in_range(FatType::Fat12, v));
    assert!(Fat12::set::<_, ()>(&mut dev, k as u32, v).is_ok());
    let new = dev.data;
    assert!(class_w(FatType::Fat12, ent12(&new, k)) == v);
    let j: usize = kani::any();
    kani::assume(j < NENT && j != k);
    assert!(ent12(&new, j) == ent12(&old, j));
    let b: usize = kani::any();
    kani::assume(b < T12 && (b < k + k / 2 || b > k + k / 2 + 1));
    assert!(new[b] == old[b]);
    assert!(Fat12::get::<_, ()>(&mut dev, k as u32).unwrap() == v);
    kani::cover!(k % 2 == 1 && j == k + 1);
    kani::cover!(k % 2 == 0 && j + 1 == k);
}

// @obl props=C03,C08,C10 tier=quick fns=Fat16::set,Fat16::set_raw,Fat16::get
// @bound bounded: 16-entry table; unbounded frame: Verus unit table_fat16
// @desc FAT16, forall table contents, k < 16, value: after set, get(k) = value; every other byte of the table is unchanged
#[kani::proof]
#[kani::unwind(6)]
fn fat16_set_frame() {
    let mut dev = MemDev::<T16>::any();
    let old = dev.data;
    let k: usize = kani::any();
    kani::assume(k < NENT);
    let v = any_value();
    kani::assume(value_in_range(FatType::Fat16, v));
    assert!(Fat16::set::<_, ()>(&mut dev, k as u32, v).is_ok());
    let new = dev.data;
    assert!(class_w(FatType::Fat16, ent16(&new, k)) == v);
    let b: usize = kani::any();
    kani::assume(b < T16 && b / 2 != k);
    assert!(new[b] == old[b]);
    assert!(Fat16::get::<_, ()>(&mut dev, k as u32).unwrap() == v);
    kani::cover!(k == 15);
}

// @obl props=C03,C08,C10 tier=quick fns=Fat32::set,Fat32::set_raw,Fat32::get
// @bound bounded: 16-entry table; unbounded frame: Verus unit table_fat32
// @desc FAT32, forall table contents (non-zero reserved high bits included), k < 16, value: after set the low 28 bits encode value, the TOP FOUR BITS of the entry are exactly what they were, every other byte of the table is unchanged
#[kani::proof]
#[kani::unwind(6)]
fn fat32_set_frame() {
    let mut dev = MemDev::<T32>::any();
    let old = dev.data;
    let k: usize = kani::any();
    kani::assume(k < NENT);
    let v = any_value();
    kani::assume(value_in_range(FatType::Fat32, v));
    assert!(Fat32::set::<_, ()>(&mut dev, k as u32, v).is_ok());
    let new = dev.data;
    assert!(class_w(FatType::Fat32, ent32(&new, k)) == v);
    assert!(ent32(&new, k) & 0xF000_0000 == ent32(&old, k) & 0xF000_0000);
    let b: usize = kani::any();
    kani::assume(b < T32 && b / 4 != k);
    assert!(new[b] == old[b]);
    assert!(Fat32::get::<_, ()>(&mut dev, k as u32).unwrap() == v);
    kani::cover!(ent32(&old, k) & 0xF000_0000 == 0xA000_0000 && v == FatValue::Free);
}

fn ent(ft: FatType, b: &[u8], k: usize) -> u32 {
    match ft {
        FatType::Fat12 => ent12(b, k),
        FatType::Fat16 => ent16(b, k),
        FatType::Fat32 => ent32(b, k) & 0x0FFF_FFFF,
    }
}

fn find_free_twin(ft: FatType) {
    let mut dev = MemDev::<T32>::any();
    let old = dev.data;
    let start: u32 = kani::any();
    let end: u32 = kani::any();
    kani::assume(start >= 2 && start < end && end as usize <= NENT);
    let r = find_free_cluster::<_, ()>(&mut dev, ft, start, end);
    match &r {
        Ok(c) => {
            let c = *c;
            assert!(c >= start && c < end);
            assert!(ent(ft, &old, c as usize) == 0);
            let j: u32 = kani::any();
            kani::assume(j >= start && j < c);
            assert!(ent(ft, &old, j as usize) != 0);
        }
        Err(e) => {
            assert!(matches!(e, Error::NotEnoughSpace));
            let j: u32 = kani::any();
            kani::assume(j >= start && j < end);
            assert!(ent(ft, &old, j as usize) != 0);
        }
    }
    let bi: usize = kani::any();
    kani::assume(bi < T32);
    assert!(dev.data[bi] == old[bi]);
    kani::cover!(r.is_ok());
    kani::cover!(r.is_err());
}

// @obl props=C05,C10,C20 tier=quick fns=Fat12::find_free,find_free_cluster
// @bound bounded: 16-entry table, all contents symbolic; unbounded: Verus unit table_fat12
// @desc FAT12 find_free over [start,end): Ok(c) => c is the FIRST free entry in the range; Err(NotEnoughSpace) => NO entry in the range is free; table unchanged (the streaming 3-bytes-per-2-entries decode agrees with the arithmetic entry spec)
#[kani::proof]
#[kani::unwind(18)]
fn fat12_find_free_twin() {
    find_free_twin(FatType::Fat12);
}

// @obl props=C05,C10,C20 tier=quick fns=Fat16::find_free,find_free_cluster
// @bound bounded: 16-entry table; unbounded: Verus unit table_fat16
// @desc FAT16 find_free: first free entry in range, or NotEnoughSpace iff none; table unchanged
#[kani::proof]
#[kani::unwind(18)]
fn fat16_find_free_twin() {
    find_free_twin(FatType::Fat16);
}

// @obl props=C05,C10,C20 tier=quick fns=Fat32::find_free,find_free_cluster
// @bound bounded: 16-entry table; unbounded: Verus unit table_fat32
// @desc FAT32 find_free: first entry whose low 28 bits are zero, or NotEnoughSpace iff none; table unchanged
#[kani::proof]
#[kani::unwind(18)]
fn fat32_find_free_twin() {
    find_free_twin(FatType::Fat32);
}

fn count_free_twin(ft: FatType) {
    let mut dev = MemDev::<T32>::any();
    let old = dev.data;
    let total: u32 = kani::any();
    kani::assume(total as usize + 2 <= NENT);
    let r = count_free_clusters::<_, ()>(&mut dev, ft, total);
    assert!(r.is_ok());
    let mut want = 0u32;
    let mut k = 2usize;
    while k < NENT {
        if k < total as usize + 2 && ent(ft, &old, k) == 0 {
            want += 1;
        }
        k += 1;
    }
    assert!(r.unwrap() == want);
    let bi: usize = kani::any();
    kani::assume(bi < T32);
    assert!(dev.data[bi] == old[bi]);
    kani::cover!(want == 3 && total == 14);
}

// @obl props=C05 tier=quick fns=Fat12::count_free,count_free_clusters
// @bound bounded: 16-entry table; unbounded: Verus unit table_fat12
// @desc FAT12 count_free = number of entries in [2, total+2) whose 12 bits are zero, for every table content (odd and even entry counts); table unchanged
#[kani::proof]
#[kani::unwind(18)]
fn fat12_count_free_twin() {
    count_free_twin(FatType::Fat12);
}

// @obl props=C05 tier=quick fns=Fat16::count_free,count_free_clusters
// @bound bounded: 16-entry table; unbounded: Verus unit table_fat16
// @desc FAT16 count_free = number of zero entries in [2, total+2); table unchanged
#[kani::proof]
#[kani::unwind(18)]
fn fat16_count_free_twin() {
    count_free_twin(FatType::Fat16);
}

// @obl props=C05 tier=quick fns=Fat32::count_free,count_free_clusters
// @bound bounded: 16-entry table; unbounded: Verus unit table_fat32
// @desc FAT32 count_free = number of entries in [2, total+2) whose low 28 bits are zero (reserved bits ignored); table unchanged
#[kani::proof]
#[kani::unwind(18)]
fn fat32_count_free_twin() {
    count_free_twin(FatType::Fat32);
}

const AENT: usize = 10; // entries of the allocation twin's table

fn alloc_twin(ft: FatType) {
    let mut dev = MemDev::<T32>::any();
    let old = dev.data;
    let total: u32 = (AENT - 2) as u32;
    let hint: Option<u32> = if kani::any() { Some(kani::any()) } else { None };
    if let Some(h) = hint {
        // FsInfoSector never holds 0 or 1 (deserialize maps them to None; alloc stores c+1 >= 3): fsinfo_parse, alloc_cluster_counts
        kani::assume(h >= 2);
    }
    let prev: Option<u32> = if kani::any() { Some(kani::any()) } else { None };
    if let Some(p) = prev {
        kani::assume(p >= 2 && (p as usize) < AENT);
        // callers pass the last cluster of a chain: it is not free
        kani::assume(ent(ft, &old, p as usize) != 0);
    }
    let r = alloc_cluster::<_, ()>(&mut dev, ft, prev, hint, total);
    let new = dev.data;
    match &r {
        Ok(c) => {
            let c = *c;
            assert!(c >= 2 && (c as usize) < AENT);
            assert!(ent(ft, &old, c as usize) == 0);
            assert!(class_w(ft, ent(ft, &new, c as usize)) == FatValue::EndOfChain);
            if let Some(p) = prev {
                assert!(class_w(ft, ent(ft, &new, p as usize)) == FatValue::Data(c));
            }
            let j: usize = kani::any();
            kani::assume(j < AENT && j != c as usize && Some(j as u32) != prev);
            assert!(ent(ft, &new, j) == ent(ft, &old, j));
            if ft == FatType::Fat32 {
                assert!(ent32(&new, c as usize) & 0xF000_0000 == ent32(&old, c as usize) & 0xF000_0000);
            }
            // wrap-around: the scan starts at the hint; nothing free in [start, c) or, when wrapped, in [start, end)
            let start = match hint {
                Some(n) if n < total + 2 => n,
                _ => 2,
            };
            let q: u32 = kani::any();
            if c >= start {
                kani::assume(q >= start && q < c);
            } else {
                kani::assume((q >= start && q < total + 2) || (q >= 2 && q < c));
            }
            assert!(ent(ft, &old, q as usize) != 0);
        }
        Err(e) => {
            assert!(matches!(e, Error::NotEnoughSpace));
            let j: usize = kani::any();
            kani::assume(j >= 2 && j < AENT);
            assert!(ent(ft, &old, j) != 0);
            let bi: usize = kani::any();
            kani::assume(bi < T32);
            assert!(new[bi] == old[bi]);
        }
    }
    kani::cover!(matches!(&r, Ok(c) if Some(*c + 1) == hint));
    kani::cover!(matches!((&r, hint), (Ok(c), Some(h)) if *c < h && h < total + 2));
    kani::cover!(r.is_err());
}

// @obl props=C03,C05,C10,C20 tier=quick fns=alloc_cluster,find_free_cluster,write_fat,Fat12::find_free,Fat12::set
// @bound bounded: 10-entry table (8 clusters), all contents, every hint >= 2 (at, before, past the last cluster, u32::MAX) or None, every prev; unbounded: Verus unit table_alloc
// @desc FAT12 alloc_cluster: Ok(c) => 2 <= c < total+2 (never a padding entry, never entry 0/1), c was free, c now end-of-chain, prev now points to c, EVERY other entry unchanged, the scan started at the hint and wrapped around to 2; Err(NotEnoughSpace) => no free entry anywhere and the table is unchanged
#[kani::proof]
#[kani::unwind(12)]
fn fat12_alloc_twin() {
    alloc_twin(FatType::Fat12);
}

// @obl props=C03,C05,C10,C20 tier=quick fns=alloc_cluster,find_free_cluster,write_fat,Fat16::find_free,Fat16::set
// @bound bounded: 10-entry table; unbounded: Verus unit table_alloc
// @desc FAT16 alloc_cluster: same contract as fat12_alloc_twin
#[kani::proof]
#[kani::unwind(12)]
fn fat16_alloc_twin() {
    alloc_twin(FatType::Fat16);
}

// @obl props=C03,C05,C10,C20 tier=quick fns=alloc_cluster,find_free_cluster,write_fat,Fat32::find_free,Fat32::set
// @bound bounded: 10-entry table; unbounded: Verus unit table_alloc
// @desc FAT32 alloc_cluster: same contract as fat12_alloc_twin, plus the reserved top four bits of the allocated entry survive
#[kani::proof]
#[kani::unwind(12)]
fn fat32_alloc_twin() {
    alloc_twin(FatType::Fat32);
}

// ---- storage faults (C09): every device call may fail with a symbolic tag ----

pub(crate) fn alloc_fault_case(ft: FatType, k: usize) {
    // 6-entry table (4 clusters), all content symbolic
    let mut dev = FaultMem::<24>::any(k, 40);
    let hint: Option<u32> = if kani::any() { Some(kani::any()) } else { None };
    if let Some(h) = hint {
        kani::assume(h >= 2);
    }
    let prev: Option<u32> = if kani::any() { Some(kani::any()) } else { None };
    if let Some(p) = prev {
        kani::assume(p >= 2 && p < 6);
    }
    let r = alloc_cluster::<_, DevErr>(&mut dev, ft, prev, hint, 4);
    if dev.fault_fired {
        match r {
            Err(Error::Io(e)) => assert!(e.tag == dev.first_tag),
            _ => assert!(false, "storage error swallowed or masked by alloc_cluster"),
        }
    } else {
        assert!(matches!(r, Ok(_) | Err(Error::NotEnoughSpace)));
    }
}

fn chain_fault_on<const N: usize>(ft: FatType, truncate: bool, k: usize) {
    // 4-entry table (clusters 2 and 3), all content symbolic: whatever chain (even cyclic) the content describes
    let mut dev = FaultMem::<N>::any(k, 30);
    let start: u32 = kani::any();
    kani::assume(start >= 2 && start < 4);
    let r = {
        let mut it: ClusterIterator<&mut FaultMem<N>, DevErr, FaultMem<N>> = ClusterIterator::new(&mut dev, ft, start);
        if truncate {
            it.truncate()
        } else {
            it.free()
        }
    };
    if dev.fault_fired {
        match r {
            Err(Error::Io(e)) => assert!(e.tag == dev.first_tag),
            _ => assert!(false, "storage error swallowed by ClusterIterator::free/truncate"),
        }
    } else {
        assert!(r.is_ok());
    }
}

pub(crate) fn chain_fault_case(ft: FatType, truncate: bool, k: usize) {
    match ft {
        FatType::Fat12 => chain_fault_on::<6>(ft, truncate, k),
        FatType::Fat16 => chain_fault_on::<8>(ft, truncate, k),
        FatType::Fat32 => chain_fault_on::<16>(ft, truncate, k),
    }
}

// @obl props=C03,C05,C08 tier=quick fns=ClusterIterator::free,ClusterIterator::next,get_next_cluster
// @bound bounded: 10-entry table, chains of at most 5 clusters
// @desc FAT16 table with arbitrary content in which `start` heads a well-formed chain (in range, no cycle within 5 links, fragmented or out of order as the content pleases): next() yields exactly the successor entries in order; free() returns the chain length, marks exactly the chain's entries free and leaves every other entry unchanged
#[kani::proof]
#[kani::unwind(8)]
fn fat16_chain_free_twin() {
    let mut dev = MemDev::<T32>::any();
    let old = dev.data;
    let start: u32 = kani::any();
    kani::assume(start >= 2 && (start as usize) < AENT);
    // ghost: walk the chain in the spec, at most 5 links, all in range, must end
    let mut members = [0u32; 5];
    let mut n = 0usize;
    let mut cur = start;
    let mut ended = false;
    let mut i = 0;
    while i < 5 {
        if !ended {
            members[n] = cur;
            n += 1;
            match class_w(FatType::Fat16, ent16(&old, cur as usize)) {
                FatValue::Data(nx) => {
                    kani::assume(nx >= 2 && (nx as usize) < AENT);
                    cur = nx;
                }
                _ => ended = true,
            }
        }
        i += 1;
    }
    kani::assume(ended);
    // (a chain that ends is simple: a repeated member would loop forever)
    // next() follows the chain
    {
        let mut it: ClusterIterator<&mut MemDev<T32>, (), MemDev<T32>> = ClusterIterator::new(&mut dev, FatType::Fat16, start);
        let x = it.next();
        if n >= 2 {
            assert!(matches!(x, Some(Ok(c)) if c == members[1]));
        } else {
            assert!(x.is_none());
        }
    }
    let freed = {
        let mut it: ClusterIterator<&mut MemDev<T32>, (), MemDev<T32>> = ClusterIterator::new(&mut dev, FatType::Fat16, start);
        it.free()
    };
    assert!(matches!(freed, Ok(k) if k as usize == n));
    let new = dev.data;
    let j: usize = kani::any();
    kani::assume(j < AENT);
    let mut is_member = false;
    let mut m = 0;
    while m < 5 {
        if m < n && members[m] as usize == j {
            is_member = true;
        }
        m += 1;
    }
    if is_member {
        assert!(ent16(&new, j) == 0);
    } else {
        assert!(ent16(&new, j) == ent16(&old, j));
    }
    kani::cover!(n == 5 && members[1] < members[0]);
    kani::cover!(n == 1);
}

// ---- contracts of ClusterIterator::truncate / free for the callers in fs.rs (chain_glue_* there) ----
// (the contracts themselves are proved on the real bodies in the Verus unit table_iter)

pub(crate) static mut G_ITER_CLUSTER: Option<u32> = None;
pub(crate) static mut G_ITER_FT: Option<FatType> = None;
pub(crate) static mut G_ITER_FREED: u32 = 0;
pub(crate) static mut G_ITER_OP: u8 = 0;

fn stub_iter_common<B, E, S>(this: &mut ClusterIterator<B, E, S>, op: u8) -> Result<u32, Error<E>> {
    unsafe {
        G_ITER_CLUSTER = this.cluster;
        G_ITER_FT = Some(this.fat_type);
        G_ITER_OP = op;
    }
    if kani::any() {
        // (the number reported is chosen by the calling harness, which knows the callee's postcondition on it)
        Ok(unsafe { G_ITER_FREED })
    } else {
        Err(Error::CorruptedFileSystem)
    }
}

pub(crate) fn stub_iter_truncate<B, E, S>(this: &mut ClusterIterator<B, E, S>) -> Result<u32, Error<E>>
where
    B: BorrowMut<S>,
    E: IoError,
    S: Read + Write + Seek,
    Error<E>: From<S::Error>,
{
    stub_iter_common(this, 1)
}

pub(crate) fn stub_iter_free<B, E, S>(this: &mut ClusterIterator<B, E, S>) -> Result<u32, Error<E>>
where
    B: BorrowMut<S>,
    E: IoError,
    S: Read + Write + Seek,
    Error<E>: From<S::Error>,
{
    stub_iter_common(this, 2)
}
