// Kani obligations for src/time.rs (C18, C17).  The two encoders also carry real Kani function contracts
// (kani/CONTRACTS, inserted above the fn lines of the scratch copy) discharged by proof_for_contract.
#![allow(dead_code, unused_imports)]
use super::*;
use crate::verif_common::*;

// @obl props=C18 tier=quick flags=nocover fns=Date::encode,Date::decode
// @desc Kani function contract on Date::encode (requires 1980<=y<=2107, 1<=m<=12, 1<=d<=31; ensures result == (y-1980)<<9 | m<<5 | d and Date::decode(result) == self): every one of the 47616 representable dates round-trips exactly (one-day resolution of the access date)
#[kani::proof_for_contract(crate::time::Date::encode)]
fn date_encode_contract() {
    let d = Date { year: kani::any(), month: kani::any(), day: kani::any() };
    let _ = d.encode();
}

// @obl props=C18 tier=quick flags=nocover fns=Time::encode,Time::decode
// @desc Kani function contract on Time::encode (requires h<=23, mi<=59, s<=59, ms<=999; ensures hi-res byte <= 199, decode(lo, hi) == self with millis rounded down to 10 ms [creation time], decode(lo, 0) == self with sec rounded down to even and millis 0 [modification time])
#[kani::proof_for_contract(crate::time::Time::encode)]
fn time_encode_contract() {
    let t = Time { hour: kani::any(), min: kani::any(), sec: kani::any(), millis: kani::any() };
    let _ = t.encode();
}

// @obl props=C17,C18 tier=quick fns=Date::decode,Time::decode,DateTime::decode
// @desc forall u16 date, u16 time, u8 hi-res: decode never overflows or panics, whatever the stored bits; every field whose stored value lies in its documented range (month 1-12, day 1-31, hour 0-23, minute 0-59, 2-second count 0-29, hundredths 0-199) is returned exactly as the specification's bit field (year = 1980 + 7 bits always); what is returned for an out-of-range stored field is not constrained
#[kani::proof]
fn decode_total() {
    let (d, t, h): (u16, u16, u8) = (kani::any(), kani::any(), kani::any());
    let dt = DateTime::decode(d, t, h);
    assert!(dt.date.year == 1980 + (d >> 9) && dt.date.year <= 2107);
    let (mo, da, ho, mi, s2) = ((d >> 5) & 0xF, d & 0x1F, t >> 11, (t >> 5) & 0x3F, t & 0x1F);
    if mo >= 1 && mo <= 12 {
        assert!(dt.date.month == mo);
    }
    if da >= 1 {
        assert!(dt.date.day == da);
    }
    if ho <= 23 {
        assert!(dt.time.hour == ho);
    }
    if mi <= 59 {
        assert!(dt.time.min == mi);
    }
    if s2 <= 29 && h <= 199 {
        assert!(dt.time.sec == s2 * 2 + (h / 100) as u16);
        assert!(dt.time.millis == (h % 100) as u16 * 10);
    }
    kani::cover!(mo == 15 && s2 == 31 && h == 255);
    kani::cover!(dt.time.sec == 59 && dt.time.millis == 990);
}

// @obl props=C18 tier=quick fns=Date::new,Time::new
// @desc Date::new / Time::new accept exactly the documented ranges (panic outside), so every DateTime a caller can construct satisfies the encoders' preconditions
#[kani::proof]
fn constructors_accept_exactly_valid() {
    let d = any_valid_date();
    let t = any_valid_time();
    assert!(d.year >= 1980 && d.year <= 2107 && d.month >= 1 && d.month <= 12 && d.day >= 1 && d.day <= 31);
    assert!(t.hour <= 23 && t.min <= 59 && t.sec <= 59 && t.millis <= 999);
    let dt = DateTime::new(d, t);
    assert!(dt.date == d && dt.time == t);
    kani::cover!(d.year == 2107 && d.month == 12 && d.day == 31 && t.hour == 23 && t.millis == 999);
}

// @obl props=C18 tier=quick fns=Date::new flags=nocover
// @desc Date::new panics for any year/month/day outside the documented range (should_panic harness: no out-of-range Date can be built through the public constructor)
#[kani::proof]
#[kani::should_panic]
fn date_new_rejects_invalid() {
    let (y, m, d): (u16, u16, u16) = (kani::any(), kani::any(), kani::any());
    kani::assume(!(y >= 1980 && y <= 2107 && m >= 1 && m <= 12 && d >= 1 && d <= 31));
    let _ = Date::new(y, m, d);
}

// @obl props=C18 tier=quick fns=NullTimeProvider::get_current_date,NullTimeProvider::get_current_date_time
// @desc the default provider of builds without chrono returns the DOS epoch decode(0): total, constant
#[kani::proof]
fn null_time_provider() {
    let p = NullTimeProvider::new();
    let d = p.get_current_date();
    let dt = p.get_current_date_time();
    assert!(d.year == 1980 && d.month == 0 && d.day == 0);
    assert!(dt.date == d && dt.time.hour == 0 && dt.time.sec == 0 && dt.time.millis == 0);
    kani::cover!(true);
}
