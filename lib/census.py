"""Syntactic census of raw-device access sites (DESIGN.md C11 `fs::write_sites_enumerated`).

Not a proof: a mechanical check, run from the current /repo/src on every run, that the set of places where
the library touches the raw storage (`disk.borrow_mut()`) is exactly the set the contracted obligations cover.
A new or vanished site is `undecided` (exit 2: "uncontracted device access site"), never a violation."""
import os
import re

from . import common as C

# (file, enclosing fn) -> obligations that put this site under contract
EXPECTED = {
    ("src/dir_entry.rs", "write"): "kani:dir_entry::editor_flush_contract (32 bytes at the entry position)",
    ("src/file.rs", "flush"): "kani:file::flush_contract (device flush after the entry write-back)",
    ("src/file.rs", "read"): "kani:file::read_contract_* (one seek + read at the cluster address; never writes)",
    ("src/file.rs", "write"): "kani:file::write_contract_* (one seek + write inside the file's cluster)",
    ("src/fs.rs", "alloc_cluster"): "kani:fs::alloc_cluster_counts_* (zeroing exactly the allocated cluster)",
    ("src/fs.rs", "flush_fs_info"): "kani:fs::unmount_fat32_writes_fsinfo, unmount_fsinfo_location (512 bytes at the FS-info sector)",
    ("src/fs.rs", "set_dirty_flag"): "kani:fs::set_dirty_flag_contract, status_byte_exact (one byte at 0x25 / 0x41)",
    ("src/fs.rs", "read"): "FsIoAdapter::read: forwards to the device (no write)",
    ("src/fs.rs", "write"): "kani:fs::adapter_write_marks_dirty; extent decided by DiskSlice (kani:fs::diskslice_write_read_contract, geom_fat_slice, geom_root_slice)",
    ("src/fs.rs", "flush"): "FsIoAdapter::flush: forwards to the device",
    ("src/fs.rs", "seek"): "FsIoAdapter::seek: forwards to the device",
}


def sites():
    found = []
    src = os.path.join(C.REPO, "src")
    for fn in sorted(os.listdir(src)):
        if not fn.endswith(".rs"):
            continue
        lines = open(os.path.join(src, fn)).read().split("\n")
        for i, line in enumerate(lines):
            code = line.split("//")[0]
            if re.search(r"\bdisk\s*\.\s*borrow_mut\s*\(\s*\)", code) or re.search(r"\bdisk\s*\.\s*borrow\s*\(\s*\)", code):
                j = i
                name = None
                while j >= 0:
                    m = re.match(r"\s*(?:pub(?:\([^)]*\))?\s+)?fn\s+(\w+)", lines[j])
                    if m:
                        name = m.group(1)
                        break
                    j -= 1
                found.append(("src/" + fn, name, i + 1))
    return found


def list_obligations():
    return [{
        "backend": "census", "id": "census:raw_device_sites", "name": "raw_device_sites", "props": ["C11", "C12", "C13"],
        "tier": "quick", "bound": "syntactic census (not a proof; never counted as discharged)", "feat": ["fa"], "fns": sorted(set(k[1] for k in EXPECTED)),
        "desc": "every place where the library touches the raw storage (`disk.borrow_mut()`) is one of the %d sites covered by a contract; a new site makes the check undecided" % len(EXPECTED),
        "heavy": False, "file": __file__, "line": 1, "twin": None, "timeout": None, "flags": [], "module": "census",
    }]


def run(obls):
    out = {}
    found = sites()
    keys = set((f, n) for f, n, _ in found)
    missing = sorted(set(EXPECTED) - keys)
    extra = sorted(keys - set(EXPECTED))
    for o in obls:
        if extra or missing:
            why = "uncontracted device access site(s): %s; vanished: %s" % (extra, missing)
            out[(o["id"], "fa")] = {"verdict": "undecided", "reason": why, "seconds": 0, "obl": o, "feat": "fa", "raw": {"sites": found}}
        else:
            out[(o["id"], "fa")] = {"verdict": "accepted", "reason": "", "seconds": 0, "obl": o, "feat": "fa",
                                    "raw": {"sites": found, "covered_by": {"%s::%s" % k: v for k, v in EXPECTED.items()}}}
    return out
