"""Shared helpers for the /verif runner: paths, scratch copies, annotation parsing."""
import hashlib
import json
import os
import re
import shutil
import subprocess
import tempfile
import time

VERIF = os.path.dirname(os.path.dirname(os.path.abspath(__file__)))
REPO = os.environ.get("VERIF_REPO", "/repo")
KANI_DIR = os.path.join(VERIF, "kani")
VERUS_DIR = os.path.join(VERIF, "verus")
EVIDENCE_DIR = os.path.join(VERIF, "evidence")
REPLAY_DIR = os.path.join(VERIF, "replays")
KNOWN_FINDINGS = os.path.join(VERIF, "known_findings.json")

# feature sets (A-CFG in DESIGN.md): no log_level_* (log macros are dead code), no chrono
FEATURES = {
    "fa": "std,alloc,lfn,unicode",   # default for all proofs
    "fn": "std,lfn,unicode",         # fixed long-name buffer build (C19/C17)
    "fu": "std,alloc,lfn",           # unicode case folding off (C19)
}

NCPU = os.cpu_count() or 4


def sha256_file(path):
    h = hashlib.sha256()
    with open(path, "rb") as f:
        for chunk in iter(lambda: f.read(1 << 16), b""):
            h.update(chunk)
    return h.hexdigest()


def sha256_text(s):
    return hashlib.sha256(s.encode()).hexdigest()


class Scratch:
    """A scratch directory outside /repo and /verif, removed (with build output) on exit."""

    def __init__(self, keep=False):
        base = os.environ.get("VERIF_SCRATCH", "/var/tmp")
        os.makedirs(base, exist_ok=True)
        self.dir = tempfile.mkdtemp(prefix="verif-", dir=base)
        self.keep = keep

    def path(self, *p):
        return os.path.join(self.dir, *p)

    def copy_repo(self, name="repo"):
        dst = self.path(name)
        subprocess.run(
            ["rsync", "-a", "--exclude", "/target", "--exclude", "/.git", "--exclude", "/tmp",
             REPO.rstrip("/") + "/", dst + "/"], check=True)
        return dst

    def cleanup(self):
        if not self.keep:
            shutil.rmtree(self.dir, ignore_errors=True)

    def __enter__(self):
        return self

    def __exit__(self, *a):
        self.cleanup()


ANNOT_RE = re.compile(r"^\s*//\s*@(\w+)\s*(.*)$")


def parse_annotations(path, kind):
    """Parse `// @obl key=val ...` / `// @desc text` blocks that precede each obligation.

    Returns a list of dicts: name, props, tier, bound, feat, fns, desc, heavy, file.
    For kind == 'kani' the obligation name is the following `fn NAME(`.
    """
    obls = []
    cur = None
    with open(path) as f:
        lines = f.readlines()
    for i, line in enumerate(lines):
        m = ANNOT_RE.match(line)
        if m:
            key, rest = m.group(1), m.group(2).strip()
            if key == "obl":
                cur = {"props": [], "tier": "quick", "bound": "complete", "feat": ["fa"], "fns": [],
                       "desc": "", "heavy": False, "file": path, "line": i + 1, "twin": None,
                       "timeout": None, "flags": []}
                for kv in rest.split():
                    if "=" not in kv:
                        continue
                    k, v = kv.split("=", 1)
                    if k in ("props", "feat", "fns", "flags", "feat_quick"):
                        cur[k] = [x for x in v.split(",") if x]
                    elif k == "heavy":
                        cur[k] = v in ("1", "true", "yes")
                    elif k == "timeout":
                        cur[k] = int(v)
                    else:
                        cur[k] = v
            elif key == "desc" and cur is not None:
                cur["desc"] = (cur["desc"] + " " + rest).strip()
            elif key == "bound" and cur is not None:
                cur["bound"] = rest
            continue
        if cur is not None:
            m2 = re.match(r"^\s*(?:pub\s+)?(?:proof\s+|exec\s+)?fn\s+(\w+)", line)
            if m2:
                cur["name"] = m2.group(1)
                obls.append(cur)
                cur = None
    return obls


def load_known_findings():
    if not os.path.exists(KNOWN_FINDINGS):
        return {"known": [], "fixed": []}
    with open(KNOWN_FINDINGS) as f:
        return json.load(f)


def now():
    return time.time()
