"""Kani back end: append harness modules to a scratch copy of the real crate, run, classify, replay."""
import json
import os
import re
import shutil
import subprocess
import time

from . import common as C

# failed-check classes that mean "the tool could not decide", not "the contract is broken"
TOOL_DESC = (
    "unwinding assertion",
    "is not currently supported by Kani",
    "unsupported",
    "recursion unwinding assertion",
)


def harness_modules():
    """kani/<src>.rs and kani/<src>__<suffix>.rs are appended to src/<src>.rs as child modules
    `verif_kani` / `verif_kani_<suffix>`.  Returns {file stem: (src module, child module name, path)}."""
    mods = {}
    for fn in sorted(os.listdir(C.KANI_DIR)):
        if fn.endswith(".rs") and fn != "common.rs":
            stem = fn[:-3]
            src, _, suffix = stem.partition("__")
            mods[stem] = (src, "verif_kani" + ("_" + suffix if suffix else ""), os.path.join(C.KANI_DIR, fn))
    return mods


def list_obligations():
    obls = []
    for stem, (src, child, path) in harness_modules().items():
        needs = []
        for line in open(path):
            m = re.match(r"\s*//\s*@needs\s+(.*)", line)
            if m:
                needs += [x.strip() for x in m.group(1).split(",") if x.strip()]
        for o in C.parse_annotations(path, "kani"):
            o["needs"] = needs
            o["backend"] = "kani"
            o["module"] = stem
            o["id"] = "kani:%s::%s" % (stem, o["name"])
            o["harness"] = "%s::%s::%s" % (src, child, o["name"])
            obls.append(o)
    return obls


def load_contracts():
    """kani/CONTRACTS: blocks `@fn <src file> :: <signature line>` followed by attribute lines."""
    path = os.path.join(C.KANI_DIR, "CONTRACTS")
    blocks = []
    if not os.path.exists(path):
        return blocks
    cur = None
    for line in open(path):
        if line.startswith("@fn "):
            f, sig = line[4:].split("::", 1)
            cur = {"file": f.strip(), "sig": " ".join(sig.split()), "attrs": []}
            blocks.append(cur)
        elif line.strip() and not line.startswith("//") and cur is not None:
            cur["attrs"].append(line.rstrip("\n"))
    return blocks


def prepare(scratch, feat, modules, log):
    """Scratch copy of /repo with the harness modules appended (and contract attributes inserted).
    Returns (repo_dir, info) or raises ToolError."""
    repo = scratch.copy_repo("repo-" + feat)
    kdir = scratch.path("kani-" + feat)
    shutil.copytree(C.KANI_DIR, kdir)
    info = {"sources": {}, "contracts_inserted": [], "lost_anchors": []}
    # contract attribute insertion (line-only, function text untouched)
    for b in load_contracts():
        src = os.path.join(repo, b["file"])
        if not os.path.exists(src):
            info["lost_anchors"].append(b["file"] + " :: " + b["sig"])
            continue
        lines = open(src).read().split("\n")
        hits = [i for i, l in enumerate(lines) if " ".join(l.split()).startswith(b["sig"])]
        if len(hits) != 1:
            info["lost_anchors"].append(b["file"] + " :: " + b["sig"])
            continue
        indent = re.match(r"\s*", lines[hits[0]]).group(0)
        lines[hits[0]:hits[0]] = [indent + a.strip() for a in b["attrs"]]
        open(src, "w").write("\n".join(lines))
        info["contracts_inserted"].append(b["file"] + " :: " + b["sig"])
    # common helpers -> lib.rs
    common = os.path.join(kdir, "common.rs")
    if os.path.exists(common):
        with open(os.path.join(repo, "src/lib.rs"), "a") as f:
            f.write('\n#[cfg(kani)] #[path = "%s"] pub(crate) mod verif_common;\n' % common)
    crate_attrs = os.path.join(kdir, "CRATE_ATTRS")
    if os.path.exists(crate_attrs):
        lib = os.path.join(repo, "src/lib.rs")
        txt = open(lib).read()
        # inner attributes must precede items; insert right before the first `#![crate_type`
        ins = open(crate_attrs).read()
        idx = txt.find("#![crate_type")
        if idx < 0:
            raise ToolError("lost anchor: #![crate_type in lib.rs")
        txt = txt[:idx] + ins + txt[idx:]
        open(lib, "w").write(txt)
    hm = harness_modules()
    for stem in sorted(modules):
        mod, child, _ = hm[stem]
        src = os.path.join(repo, "src", mod + ".rs")
        if not os.path.exists(src):
            raise ToolError("lost anchor: src/%s.rs does not exist" % mod)
        orig = os.path.join(C.REPO, "src", mod + ".rs")
        info["sources"]["src/%s.rs" % mod] = C.sha256_file(orig)
        with open(src, "a") as f:
            f.write('\n#[cfg(kani)] #[path = "%s"] pub(crate) mod %s;\n' % (os.path.join(kdir, stem + ".rs"), child))
    shutil.copy(os.path.join(C.REPO, "Cargo.lock"), os.path.join(repo, "Cargo.lock"))
    return repo, kdir, info


class ToolError(Exception):
    pass


def base_cmd(feat):
    return ["cargo", "kani", "--no-default-features", "--features", C.FEATURES[feat],
            "-Z", "unstable-options", "-Z", "function-contracts", "-Z", "stubbing"]


def run_group(repo, feat, obls, jobs, timeout_s, log, mem_gb=None):
    """Run one cargo-kani invocation for the given obligations. Returns dict harness -> raw result."""
    out_json = os.path.join(repo, "kani-out-%d.json" % int(time.time() * 1000))
    cmd = base_cmd(feat) + ["--export-json", out_json, "--output-format", "terse",
                            "--harness-timeout", "%ds" % timeout_s, "--exact"]
    if jobs > 1:
        cmd += ["-j", str(jobs)]
    for o in obls:
        cmd += ["--harness", o["harness"]]
    env = dict(os.environ, CARGO_NET_OFFLINE="true", CARGO_TERM_COLOR="never")
    shell = " ".join("'%s'" % c for c in cmd)
    if mem_gb:
        shell = "ulimit -v %d; %s" % (mem_gb * 1024 * 1024, shell)
    t0 = time.time()
    wall_limit = timeout_s * max(1, (len(obls) + jobs - 1) // jobs) + 900
    try:
        p = subprocess.run(["bash", "-c", shell], cwd=repo, env=env, stdout=subprocess.PIPE,
                           stderr=subprocess.STDOUT, text=True, timeout=wall_limit)
        out = p.stdout
        rc = p.returncode
    except subprocess.TimeoutExpired as e:
        out = (e.stdout or "") if isinstance(e.stdout, str) else (e.stdout or b"").decode(errors="replace")
        rc = -9
    wall = time.time() - t0
    log.write("\n$ (cd %s && %s)\n[rc=%s wall=%.1fs]\n%s\n" % (repo, shell, rc, wall, out[-200000:]))
    res = {}
    data = None
    if os.path.exists(out_json):
        try:
            data = json.load(open(out_json))
        except Exception:
            data = None
    compile_error = ("error: could not compile" in out or "error[E" in out) and data is None
    stubs = re.findall(r"-\s*Stub:\s*(.*)", out)
    if data is not None:
        cbmc_stats = {c["harness_id"]: c for c in data.get("cbmc", [])}
        for r in data.get("verification_results", {}).get("results", []):
            hid = r["harness_id"]
            checks = r.get("checks", [])
            failed = [c for c in checks if c.get("status") == "Failure"]
            covers = [c for c in checks if c.get("category") == "cover"]
            res[hid] = {
                "status": r.get("status"),
                "seconds": r.get("duration_ms", 0) / 1000.0,
                "n_checks": len(checks),
                "failed": [{"description": c.get("description"), "function": c.get("function"),
                            "file": (c.get("location") or {}).get("file"),
                            "line": (c.get("location") or {}).get("line"),
                            "category": c.get("category")} for c in failed],
                "covers": [(c.get("description"), c.get("status")) for c in covers],
                "solver_s": ((cbmc_stats.get(hid) or {}).get("cbmc_stats") or {}).get("runtime_solver_s"),
            }
    for o in obls:
        if o["harness"] not in res:
            why = "compile error in scratch crate (harness module no longer fits the code)" if compile_error \
                else "no result (timeout, out of memory or tool crash)"
            m = re.search(r"^(error(\[E\d+\])?:.*(?:\n.*){0,6})", out, re.M)
            res[o["harness"]] = {"status": "NoResult", "seconds": 0, "n_checks": 0, "failed": [], "covers": [],
                                 "why": why, "detail": m.group(1) if m else out[-1500:]}
    return res, {"cmd": shell, "wall": wall, "stubs": stubs, "rc": rc}


def classify(raw, obl=None):
    """-> ('accepted'|'violation'|'undecided', reason)"""
    nocover = obl is not None and "nocover" in obl.get("flags", [])
    st = raw.get("status")
    if st == "NoResult":
        return "undecided", raw.get("why", "no result")
    bad_cover = [d for d, s in raw["covers"] if s != "Satisfied"]
    if st == "Success":
        if bad_cover:
            return "undecided", "vacuity guard: cover not satisfied: %s" % "; ".join(bad_cover)
        if not raw["covers"] and not nocover:
            return "undecided", "vacuity guard: harness has no kani::cover!"
        if raw["n_checks"] == 0:
            return "undecided", "vacuity guard: zero checks generated"
        return "accepted", ""
    failed = raw["failed"]
    semantic = [f for f in failed if not any(t in (f["description"] or "") for t in TOOL_DESC)]
    if semantic:
        return "violation", "; ".join("%s @ %s:%s" % (f["description"], os.path.basename(f["file"] or "?"), f["line"])
                                      for f in semantic[:6])
    if failed:
        return "undecided", "tool limit: " + "; ".join(f["description"] for f in failed[:4])
    return "undecided", "status=%s without failed checks (timeout or solver error)" % st


def playback_batch(repo, kdir, feat, obls, log, jobs=8, timeout_s=900, max_native=3):
    """Re-run failed harnesses (one invocation, in parallel) with concrete playback and execute the generated
    tests natively against the real crate.  Returns {obligation id: dict(tests, test_src, native_output, native_failed)}."""
    env = dict(os.environ, CARGO_NET_OFFLINE="true", CARGO_TERM_COLOR="never")
    out = {}
    if not obls:
        return out
    files = sorted(set(os.path.join(kdir, o["module"] + ".rs") for o in obls))
    before = {f: open(f).read() for f in files}
    # Kani inserts the generated tests into the harness file using the line numbers of ONE compilation: two failed
    # harnesses of the same file in one invocation corrupt each other's insertion.  Hence rounds with at most one
    # harness per file.
    rounds, seen = [], {}
    for o in obls:
        k = seen.get(o["module"], 0)
        seen[o["module"]] = k + 1
        while len(rounds) <= k:
            rounds.append([])
        rounds[k].append(o)
    for rnd in rounds:
        cmd = base_cmd(feat) + ["-Z", "concrete-playback", "--concrete-playback=inplace", "--output-format", "terse",
                                "--exact", "--harness-timeout", "%ds" % timeout_s]  # (--concrete-playback excludes --jobs)
        for o in rnd:
            cmd += ["--harness", o["harness"]]
        try:
            p = subprocess.run(cmd, cwd=repo, env=env, stdout=subprocess.PIPE, stderr=subprocess.STDOUT, text=True,
                               timeout=timeout_s * 2 + 600)
            log.write("\n$ %s\n%s\n" % (" ".join(cmd), p.stdout[-30000:]))
        except subprocess.TimeoutExpired:
            log.write("\n$ %s\n[timeout]\n" % " ".join(cmd))
        # Kani writes the text of the failed check into a `///` comment; a multi-line assertion text leaves its
        # continuation lines uncommented, which breaks the native build: comment them.
        for f in files:
            lines, fixed, in_doc = open(f).read().split("\n"), [], False
            for ln in lines:
                if ln.startswith("/// Test generated for harness"):
                    in_doc = True
                elif ln.strip() == "#[test]":
                    in_doc = False
                elif in_doc and ln.strip() and not ln.startswith("///"):
                    ln = "/// " + ln
                fixed.append(ln)
            if fixed != lines:
                open(f, "w").write("\n".join(fixed))
    # native build: examples/tests need chrono and are not part of the proof; drop them from the scratch copy
    for d in ("examples", "tests"):
        shutil.rmtree(os.path.join(repo, d), ignore_errors=True)
    for o in obls:
        f = os.path.join(kdir, o["module"] + ".rs")
        after = open(f).read()
        added = after[len(before[f]):] if after.startswith(before[f]) else after
        # tests generated for this harness
        blocks = re.split(r"(?=/// Test generated for harness)", added)
        mine = [b for b in blocks if ("`%s`" % o["harness"]) in b]
        tests = []
        for b in mine:
            m = re.search(r"fn (kani_concrete_playback_\w+)", b)
            if m:
                tests.append((m.group(1), b))
        if not tests:
            continue
        # prefer tests generated for failed assertions/overflows over those for cover properties
        tests.sort(key=lambda t: ("Check for `cover`" in t[1]))
        outs, native_failed = [], False
        for name, _ in tests[:max_native]:
            cmd2 = ["cargo", "kani", "playback", "-Z", "concrete-playback", "--no-default-features", "--features",
                    C.FEATURES[feat] + ",chrono", "--", name]
            try:
                q = subprocess.run(cmd2, cwd=repo, env=env, stdout=subprocess.PIPE, stderr=subprocess.STDOUT, text=True,
                                   timeout=1200)
                tail = q.stdout[-5000:]
                outs.append("$ %s\n%s" % (" ".join(cmd2), tail))
                if q.returncode != 0 and ("panicked" in q.stdout or "FAILED" in q.stdout):
                    native_failed = True
            except subprocess.TimeoutExpired:
                outs.append("$ %s\n[timeout: native replay did not terminate in 1200 s]" % " ".join(cmd2))
                native_failed = True
            if native_failed:
                break
        out[o["id"]] = {"tests": [t[0] for t in tests], "test_src": "\n".join(t[1] for t in tests[:max_native])[-12000:],
                        "native_output": "\n".join(outs), "native_failed": native_failed}
    return out


