"""Kani back end: append harness modules to a scratch copy of the real crate, run, classify, replay."""
import json
import os
import re
import shutil
import subprocess
import time

from . import common as C

# failed-check classes that mean "the tool could not decide", not "the contract is broken"
TOOL_DESC = (
    "unwinding assertion",
    "is not currently supported by Kani",
    "unsupported",
    "recursion unwinding assertion",
)


def harness_modules():
    """kani/<src>.rs and kani/<src>__<suffix>.rs are appended to src/<src>.rs as child modules
    `verif_kani` / `verif_kani_<suffix>`.  Returns {file stem: (src module, child module name, path)}."""
    mods = {}
    for fn in sorted(os.listdir(C.KANI_DIR)):
        if fn.endswith(".rs") and fn != "common.rs":
            stem = fn[:-3]
            src, _, suffix = stem.partition("__")
            mods[stem] = (src, "verif_kani" + ("_" + suffix if suffix else ""), os.path.join(C.KANI_DIR, fn))
    return mods


def list_obligations():
    obls = []
    for stem, (src, child, path) in harness_modules().items():
        for o in C.parse_annotations(path, "kani"):
            o["backend"] = "kani"
            o["module"] = stem
            o["id"] = "kani:%s::%s" % (stem, o["name"])
            o["harness"] = "%s::%s::%s" % (src, child, o["name"])
            obls.append(o)
    return obls


def load_contracts():
    """kani/CONTRACTS: blocks `@fn <src file> :: <signature line>` followed by attribute lines."""
    path = os.path.join(C.KANI_DIR, "CONTRACTS")
    blocks = []
    if not os.path.exists(path):
        return blocks
    cur = None
    for line in open(path):
        if line.startswith("@fn "):
            f, sig = line[4:].split("::", 1)
            cur = {"file": f.strip(), "sig": " ".join(sig.split()), "attrs": []}
            blocks.append(cur)
        elif line.strip() and not line.startswith("//") and cur is not None:
            cur["attrs"].append(line.rstrip("\n"))
    return blocks


def prepare(scratch, feat, modules, log):
    """Scratch copy of /repo with the harness modules appended (and contract attributes inserted).
    Returns (repo_dir, info) or raises ToolError."""
    repo = scratch.copy_repo("repo-" + feat)
    kdir = scratch.path("kani-" + feat)
    shutil.copytree(C.KANI_DIR, kdir)
    info = {"sources": {}, "contracts_inserted": [], "lost_anchors": []}
    # contract attribute insertion (line-only, function text untouched)
    for b in load_contracts():
        src = os.path.join(repo, b["file"])
        if not os.path.exists(src):
            info["lost_anchors"].append(b["file"] + " :: " + b["sig"])
            continue
        lines = open(src).read().split("\n")
        hits = [i for i, l in enumerate(lines) if " ".join(l.split()).startswith(b["sig"])]
        if len(hits) != 1:
            info["lost_anchors"].append(b["file"] + " :: " + b["sig"])
            continue
        indent = re.match(r"\s*", lines[hits[0]]).group(0)
        lines[hits[0]:hits[0]] = [indent + a.strip() for a in b["attrs"]]
        open(src, "w").write("\n".join(lines))
        info["contracts_inserted"].append(b["file"] + " :: " + b["sig"])
    # common helpers -> lib.rs
    common = os.path.join(kdir, "common.rs")
    if os.path.exists(common):
        with open(os.path.join(repo, "src/lib.rs"), "a") as f:
            f.write('\n#[cfg(kani)] #[path = "%s"] pub(crate) mod verif_common;\n' % common)
    crate_attrs = os.path.join(kdir, "CRATE_ATTRS")
    if os.path.exists(crate_attrs):
        lib = os.path.join(repo, "src/lib.rs")
        txt = open(lib).read()
        # inner attributes must precede items; insert right before the first `#![crate_type`
        ins = open(crate_attrs).read()
        idx = txt.find("#![crate_type")
        if idx < 0:
            raise ToolError("lost anchor: #![crate_type in lib.rs")
        txt = txt[:idx] + ins + txt[idx:]
        open(lib, "w").write(txt)
    hm = harness_modules()
    for stem in sorted(modules):
        mod, child, _ = hm[stem]
        src = os.path.join(repo, "src", mod + ".rs")
        if not os.path.exists(src):
            raise ToolError("lost anchor: src/%s.rs does not exist" % mod)
        orig = os.path.join(C.REPO, "src", mod + ".rs")
        info["sources"]["src/%s.rs" % mod] = C.sha256_file(orig)
        with open(src, "a") as f:
            f.write('\n#[cfg(kani)] #[path = "%s"] mod %s;\n' % (os.path.join(kdir, stem + ".rs"), child))
    shutil.copy(os.path.join(C.REPO, "Cargo.lock"), os.path.join(repo, "Cargo.lock"))
    return repo, kdir, info


class ToolError(Exception):
    pass


def base_cmd(feat):
    return ["cargo", "kani", "--no-default-features", "--features", C.FEATURES[feat],
            "-Z", "unstable-options", "-Z", "function-contracts", "-Z", "stubbing"]


def run_group(repo, feat, obls, jobs, timeout_s, log, mem_gb=None):
    """Run one cargo-kani invocation for the given obligations. Returns dict harness -> raw result."""
    out_json = os.path.join(repo, "kani-out-%d.json" % int(time.time() * 1000))
    cmd = base_cmd(feat) + ["--export-json", out_json, "--output-format", "terse",
                            "--harness-timeout", "%ds" % timeout_s, "--exact"]
    if jobs > 1:
        cmd += ["-j", str(jobs)]
    for o in obls:
        cmd += ["--harness", o["harness"]]
    env = dict(os.environ, CARGO_NET_OFFLINE="true", CARGO_TERM_COLOR="never")
    shell = " ".join("'%s'" % c for c in cmd)
    if mem_gb:
        shell = "ulimit -v %d; %s" % (mem_gb * 1024 * 1024, shell)
    t0 = time.time()
    wall_limit = timeout_s * max(1, (len(obls) + jobs - 1) // jobs) + 900
    try:
        p = subprocess.run(["bash", "-c", shell], cwd=repo, env=env, stdout=subprocess.PIPE,
                           stderr=subprocess.STDOUT, text=True, timeout=wall_limit)
        out = p.stdout
        rc = p.returncode
    except subprocess.TimeoutExpired as e:
        out = (e.stdout or "") if isinstance(e.stdout, str) else (e.stdout or b"").decode(errors="replace")
        rc = -9
    wall = time.time() - t0
    log.write("\n$ (cd %s && %s)\n[rc=%s wall=%.1fs]\n%s\n" % (repo, shell, rc, wall, out[-200000:]))
    res = {}
    data = None
    if os.path.exists(out_json):
        try:
            data = json.load(open(out_json))
        except Exception:
            data = None
    compile_error = ("error: could not compile" in out or "error[E" in out) and data is None
    stubs = re.findall(r"-\s*Stub:\s*(.*)", out)
    if data is not None:
        cbmc_stats = {c["harness_id"]: c for c in data.get("cbmc", [])}
        for r in data.get("verification_results", {}).get("results", []):
            hid = r["harness_id"]
            checks = r.get("checks", [])
            failed = [c for c in checks if c.get("status") == "Failure"]
            covers = [c for c in checks if c.get("category") == "cover"]
            res[hid] = {
                "status": r.get("status"),
                "seconds": r.get("duration_ms", 0) / 1000.0,
                "n_checks": len(checks),
                "failed": [{"description": c.get("description"), "function": c.get("function"),
                            "file": (c.get("location") or {}).get("file"),
                            "line": (c.get("location") or {}).get("line"),
                            "category": c.get("category")} for c in failed],
                "covers": [(c.get("description"), c.get("status")) for c in covers],
                "solver_s": ((cbmc_stats.get(hid) or {}).get("cbmc_stats") or {}).get("runtime_solver_s"),
            }
    for o in obls:
        if o["harness"] not in res:
            why = "compile error in scratch crate (harness module no longer fits the code)" if compile_error \
                else "no result (timeout, out of memory or tool crash)"
            m = re.search(r"^(error(\[E\d+\])?:.*(?:\n.*){0,6})", out, re.M)
            res[o["harness"]] = {"status": "NoResult", "seconds": 0, "n_checks": 0, "failed": [], "covers": [],
                                 "why": why, "detail": m.group(1) if m else out[-1500:]}
    return res, {"cmd": shell, "wall": wall, "stubs": stubs, "rc": rc}


def classify(raw):
    """-> ('accepted'|'violation'|'undecided', reason)"""
    st = raw.get("status")
    if st == "NoResult":
        return "undecided", raw.get("why", "no result")
    bad_cover = [d for d, s in raw["covers"] if s != "Satisfied"]
    if st == "Success":
        if bad_cover:
            return "undecided", "vacuity guard: cover not satisfied: %s" % "; ".join(bad_cover)
        if not raw["covers"]:
            return "undecided", "vacuity guard: harness has no kani::cover!"
        if raw["n_checks"] == 0:
            return "undecided", "vacuity guard: zero checks generated"
        return "accepted", ""
    failed = raw["failed"]
    semantic = [f for f in failed if not any(t in (f["description"] or "") for t in TOOL_DESC)]
    if semantic:
        return "violation", "; ".join("%s @ %s:%s" % (f["description"], os.path.basename(f["file"] or "?"), f["line"])
                                      for f in semantic[:6])
    if failed:
        return "undecided", "tool limit: " + "; ".join(f["description"] for f in failed[:4])
    return "undecided", "status=%s without failed checks (timeout or solver error)" % st


def playback(repo, kdir, feat, obl, log, timeout_s=900):
    """Re-run a failed harness with concrete playback and execute the generated test natively.
    Returns dict(test_src, native_output, native_failed) or None."""
    env = dict(os.environ, CARGO_NET_OFFLINE="true", CARGO_TERM_COLOR="never")
    src = os.path.join(kdir, obl["module"] + ".rs")
    before = open(src).read()
    cmd = base_cmd(feat) + ["-Z", "concrete-playback", "--concrete-playback=inplace", "--output-format", "terse",
                            "--exact", "--harness", obl["harness"], "--harness-timeout", "%ds" % timeout_s]
    try:
        p = subprocess.run(cmd, cwd=repo, env=env, stdout=subprocess.PIPE, stderr=subprocess.STDOUT, text=True,
                           timeout=timeout_s + 600)
    except subprocess.TimeoutExpired:
        return None
    log.write("\n$ %s\n%s\n" % (" ".join(cmd), p.stdout[-20000:]))
    after = open(src).read()
    tests = re.findall(r"fn (kani_concrete_playback_\w+)", after)
    tests = [t for t in tests if t not in before]
    if not tests:
        return None
    # native build: examples/tests need chrono and are not part of the proof; drop them from the scratch copy
    for d in ("examples", "tests"):
        shutil.rmtree(os.path.join(repo, d), ignore_errors=True)
    new_src = after[len(before):] if after.startswith(before) else "\n".join(
        l for l in after.split("\n") if l not in before.split("\n"))
    outs = []
    native_failed = False
    for t in tests[:3]:
        cmd2 = ["cargo", "kani", "playback", "-Z", "concrete-playback", "--no-default-features", "--features",
                C.FEATURES[feat] + ",chrono", "--", t]
        try:
            q = subprocess.run(cmd2, cwd=repo, env=env, stdout=subprocess.PIPE, stderr=subprocess.STDOUT, text=True,
                               timeout=1200)
            outs.append("$ %s\n%s" % (" ".join(cmd2), q.stdout[-6000:]))
            if q.returncode != 0 and ("panicked" in q.stdout or "FAILED" in q.stdout):
                native_failed = True
        except subprocess.TimeoutExpired:
            outs.append("$ %s\n[timeout: native replay did not terminate in 1200 s]" % " ".join(cmd2))
            native_failed = True
    return {"tests": tests, "test_src": new_src[-8000:], "native_output": "\n".join(outs), "native_failed": native_failed}
