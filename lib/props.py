"""Per-property assumption / glue lists (DESIGN.md section 5 and 8), repeated verbatim in the evidence."""

GLOBAL = [
    "A-DEV: the user's storage behaves as a seekable byte array and reports failure by Err (short reads/writes and Interrupted are NOT assumed away)",
    "A-STD: core/alloc functions are correct (Kani executes their real MIR within harness bounds; Verus uses vstd specs / listed assume_specification)",
    "A-LOG: arguments of the crate's log macros have no side effects; proofs are for builds without log_level_* features (macros are dead code there)",
    "A-CFG: proofs are for features std,alloc,lfn,unicode (plus std,lfn,unicode and std,alloc,lfn where the obligation says so); chrono's DefaultTimeProvider replaced by a symbolic provider",
    "verifier soundness: Kani 0.68 / CBMC 6.11 / CaDiCaL; Verus 0.2026.09.13 / Z3",
    "termination is not proved for functions that only have Kani obligations (unwinding assertions bound them instead)",
]

GLUE = {}
TRUSTED = {}


def assumptions(prop):
    return GLOBAL + ["GLUE (not proved): " + g for g in GLUE.get(prop, [])]


def trusted_base(prop):
    return TRUSTED.get(prop, [])

NOT_APPLICABLE = {
    "C01": "Refinement of arbitrary operation histories against a tree model and atomicity of failed public calls: not expressible as a contract on any function within reach - whole Dir::{create_*,remove,rename} calls exceed Kani (no answer in 25 min for one create_file on a 21 KB image) and lie outside the Verus subset; proving a hand-written model of them would be a different technique.",
}

_NOTE = ("Trusted: Kani 0.68/CBMC 6.11, Verus/Z3; core/alloc (A-STD); storage behaves as a byte array (A-DEV); builds without log_level_* "
         "features (A-LOG); harness environments in kani/common.rs. Per-run list of assume/stub/external_body sites is in evidence.coverage.trusted_base; "
         "glue not proved is in evidence.assumptions.")

CLAIMS = {
    "C06": {"text": "Proof over the whole option space of the boot-sector computation: format_boot_sector with default options is proved Ok and specification-valid for every total_sectors in [42, 2^32-1] (one symbolic harness), and for each cell of the (sector size x cluster size x forced FAT type x FAT count) grid with size/root entries/label/ids symbolic it never panics, errs only with InvalidInput and what validate accepts is valid_fresh. The I/O sequencing of format_volume (region writes) is glue, not proved.",
            "note": _NOTE, "technique": "Kani loop-free symbolic harnesses over the real format_boot_sector (complete per grid cell); Verus for format_fat/write_zeros loops"},
    "C07": {"text": "Proof, complete over all BPB field values: BootSector::validate never overflows/panics, Ok implies the specification's geometry predicate wf_bpb computed in 64-bit arithmetic, and every derived quantity (FAT width, cluster size/count, first data sector) equals an independent derivation; BPB/boot-sector/FS-info decoders are total on arbitrary bytes and equal the specification layout.",
            "note": _NOTE, "technique": "Kani loop-free symbolic harnesses on the real BiosParameterBlock/BootSector/FsInfoSector code (bit-precise, all inputs)"},
}
