"""Per-property assumption / glue lists (DESIGN.md section 5 and 8), repeated verbatim in the evidence."""

GLOBAL = [
    "A-DEV: the user's storage behaves as a seekable byte array and reports failure by Err (short reads/writes and Interrupted are NOT assumed away)",
    "A-STD: core/alloc functions are correct (Kani executes their real MIR within harness bounds; Verus uses vstd specs / listed assume_specification)",
    "A-LOG: arguments of the crate's log macros have no side effects; proofs are for builds without log_level_* features (macros are dead code there)",
    "A-CFG: proofs are for features std,alloc,lfn,unicode (plus std,lfn,unicode and std,alloc,lfn where the obligation says so); chrono's DefaultTimeProvider replaced by a symbolic provider",
    "verifier soundness: Kani 0.68 / CBMC 6.11 / CaDiCaL; Verus 0.2026.09.13 / Z3",
    "termination is not proved for functions that only have Kani obligations (unwinding assertions bound them instead)",
]

GLUE = {
 "C02": ["that callers only ever present inv_file states (true initially by File::new; every contracted operation re-establishes it)",
         "DirEntryEditor write-back of size across handles; two handles on the same file (documented as unsupported)",
         "File harnesses use four concrete fixture geometries (FAT12 512 B, FAT16 2 KiB, FAT32 4 KiB clusters, 16 TiB volume); the geometry arithmetic itself is proved for all validated BPBs (geom_*)",
         "the chain walk inside File::seek is bounded (target within the first 4 clusters)"],
 "C03": ["directory-tree part of the invariant: stale '..' after a move, nothing after the end marker, duplicate-name freedom, deletion of all slots of an entry in remove/rename_internal (Dir glue out of reach, DESIGN 10.2); dot / dot-dot contents ARE an obligation (dir__glue::create_dir_wiring_*: real create_dir body, callees by contract) for the paths on which every entry write succeeds or the first one fails",
         "that every caller passes alloc_cluster / free a cluster it owns and a well-formed chain (wf_chain is a precondition)"],
 "C04": ["that every in-memory change is eventually followed by one of the contracted flushes before the handle dies; equality of whole trees across a remount; File::extents (iterator-adaptor chain) is not under contract"],
 "C05": ["that every path which changes the table goes through FileSystem::{alloc_cluster,free_cluster_chain,truncate_cluster_chain} (true by construction: the table mutators have no other callers besides format_volume)",
         "fixed-root 'no sufficient run of free slots' (Dir::find_free_entries is Dir glue)",
         "input assumption inv_count at mount: a foreign FAT32 FS-info count is 0xFFFFFFFF or correct"],
 "C06": ["order and targets of the region writes inside format_volume (boot sector, backup copy, FAT area, root area, FS-info, label entry) and 'it mounts' as an end-to-end fact; 'boot-sector copies agree' is by construction (same serialize called twice)"],
 "C07": ["FileSystem::new's composition of the contracted decoders (bounded harness only)"],
 "C08": ["DirIter::read_dir_entry's loop wiring and equality of a full listing with a generator's ground truth"],
 "C09": ["propagation through Dir::{create_*,remove,rename,iter} (all by `?`, not verified); destructors are exempt by the statement"],
 "C10": ["that all table writes go through FileSystem::fat_slice (it is the only constructor; format_volume uses the same function)",
         "input assumption: active_fat < fats when mirroring is off (not enforced at mount)"],
 "C11": ["entry_pos really is the position of this file's entry (set by DirIter/write_entry: glue); directory-cluster ownership",
         "the write-site census is a syntactic check, not a proof"],
 "C12": ["the bracket over histories follows from the mechanism plus the write-site census; DirEntryEditor::write is the one raw write not preceded by a dirty-set (argued, not proved)"],
 "C13": ["Dir::open_*/find_entry and DirIter::next compose the contracted calls (not verified)"],
 "C14": ["that the directory entry and its long-name slots were written before the file handle existed (write_entry: glue); crash-prefix reconstruction semantics (outside this family)"],
 "C15": ["'without side effects' for rejected names (order of validation inside create_*/rename: C01 glue)",
         "strings of arbitrary length: per-character and per-length facts are complete, multi-character combinations are bounded",
         "Unicode case folding itself (char::to_uppercase) is trusted (A-STD)"],
 "C16": ["that find_entry visits every live entry (the scan-before-generate protocol of check_for_existence IS an obligation: dir__glue::existence_scan_protocol); termination of the retry loop in check_for_existence (pigeonhole over 2^16*9 candidates); that write_entry / alloc_and_write_lfn_entries pass the alias of the same call to lfn_checksum (out of reach, DESIGN 10.2)"],
 "C17": ["DirIter::read_dir_entry's loop (one slot consumed per iteration) and ClusterIterator termination under valid cluster pointers are argued, not proved"],
 "C18": ["'operations on other entries leave an entry's timestamps untouched' needs the directory-level frame (C01 glue)"],
 "C19": ["byte-identity of images over operation histories; only contract equivalence of the cfg-selected implementations is proved"],
 "C20": ["File harnesses at the 16 TiB fixture; the arithmetic is proved for all validated geometries"],
}
TRUSTED = {}


def assumptions(prop):
    return GLOBAL + ["GLUE (not proved): " + g for g in GLUE.get(prop, [])]


def trusted_base(prop):
    return TRUSTED.get(prop, [])

NOT_APPLICABLE = {
    "C01": "Refinement of arbitrary operation histories against a tree model and atomicity of failed public calls: not expressible as a contract on any function within reach - whole Dir::{create_*,remove,rename} calls exceed Kani (no answer in 25 min for one create_file on a 21 KB image) and lie outside the Verus subset; proving a hand-written model of them would be a different technique.",
}

_NOTE = ("Trusted: Kani 0.68/CBMC 6.11, Verus/Z3; core/alloc (A-STD); storage behaves as a byte array (A-DEV); builds without log_level_* "
         "features (A-LOG); harness environments in kani/common.rs. Per-run list of assume/stub/external_body sites is in evidence.coverage.trusted_base; "
         "glue not proved is in evidence.assumptions.")

_BASE_CLAIMS = {
    "C06": {"text": "Proof over the whole option space of the boot-sector computation: format_boot_sector with default options is proved Ok and specification-valid for every total_sectors in [42, 2^32-1] (one symbolic harness), and for each cell of the (sector size x cluster size x forced FAT type x FAT count) grid with size/root entries/label/ids symbolic it never panics, errs only with InvalidInput and what validate accepts is valid_fresh. The I/O sequencing of format_volume (region writes) is glue, not proved.",
            "note": _NOTE, "technique": "Kani loop-free symbolic harnesses over the real format_boot_sector (complete per grid cell); Verus for format_fat/write_zeros loops"},
    "C07": {"text": "Proof, complete over all BPB field values: BootSector::validate never overflows/panics, Ok implies the specification's geometry predicate wf_bpb computed in 64-bit arithmetic, and every derived quantity (FAT width, cluster size/count, first data sector) equals an independent derivation; BPB/boot-sector/FS-info decoders are total on arbitrary bytes and equal the specification layout.",
            "note": _NOTE, "technique": "Kani loop-free symbolic harnesses on the real BiosParameterBlock/BootSector/FsInfoSector code (bit-precise, all inputs)"},
}

CLAIMS = {
 "C02": {"text": "Per-call contracts of File::{read,write,seek,flush,drop} proved from ANY state satisfying the type invariant inv_file, for every buffer length, every cursor, every device content with valid cluster pointers: bounds on the count returned, the exact device address of the single data transfer (so reads and writes of the same offset hit the same bytes), cursor/size/first-cluster updates, re-establishment of inv_file. Composition over histories is by that invariant (stated, not mechanised). File::truncate is proved in modular form (real body against the contracts of the two chain operations). Partial: four fixture geometries, seek's chain walk bounded.",
         "note": _NOTE, "technique": "Kani single-call contracts on the real File code over a nondeterministic device + Verus/Kani geometry proofs for all validated BPBs; modular Kani harnesses: real caller body verified against callee contracts installed as #[kani::stub] with ghost state (File::truncate)"},
 "C03": {"text": "Allocation-table part and long-name-run part of the structural invariant, as contracts: FAT12/16/32 set/alloc_cluster/ClusterIterator::{free,truncate} proved in Verus for tables and chains of ANY size (exact frame: every other entry unchanged; allocated cluster was free; chain entries freed exactly; termination), LFN slot generation proved per step for every name length. Of the directory-tree part, the wiring of create_dir / create_file (one zero-filled cluster, entry in the parent, '.' -> itself, '..' -> parent or 0 for the root) and of File::truncate / the chain release are obligations on the real bodies with callees replaced by their contracts; duplicates and slot deletion in remove / rename are not decided.",
         "note": _NOTE, "technique": "Verus contracts with loop invariants on mechanically extracted table functions; Kani per-step contract of the LFN generator; bounded Kani twins for replay; modular Kani harnesses: real caller body verified against callee contracts installed as #[kani::stub] with ghost state (create_dir, create_file, truncate, chain release)"},
 "C04": {"text": "Every encoder/decoder pair is proved two-sided against a layout specification written from the FAT specification (boot sector, BPB, FS-info, 32-byte short and long slots) and the write-back contracts (DirEntryEditor::flush, File::flush/drop, unmount) are proved; equality of whole trees across a remount is not decided.",
         "note": _NOTE, "technique": "Kani loop-free symbolic harnesses over all byte blocks / field values; device-log contracts"},
 "C05": {"text": "Table level (Verus, unbounded): count_free = number of free entries, find_free/alloc_cluster return NotEnoughSpace only if no entry in range is free, free() returns exactly the number of entries freed. FileSystem level (Kani, modular against the table contracts via stubs): cached counter -1/+n (alloc_cluster; truncate_cluster_chain / free_cluster_chain against the iterator contracts), write-back latch set whenever the counter changes, hint in range, stats caches the recount, FS-info image carries count and hint.",
         "note": _NOTE, "technique": "Verus loop invariants over free_count; modular Kani harnesses: real FileSystem-level bodies verified against the table / iterator contracts installed as #[kani::stub]"},
 "C06": _BASE_CLAIMS["C06"],
 "C07": _BASE_CLAIMS["C07"],
 "C08": {"text": "Every decoding freedom the statement lists is a leaf contract against a specification-derived oracle (all raw FAT entry values incl. every end-of-chain marker and FAT32 high bits; active FAT / mirroring geometry; slot classification; short-name decoding with 0x05 and lowercase flags; OEM bytes), plus frame conditions for 'leaves everything else as it was' (set/alloc/free frames, DiskSlice write extent, 32-byte editor write, one-byte status write). Whole-listing equality is not decided.",
         "note": _NOTE, "technique": "Kani complete harnesses over all raw values / 32-byte slots; Verus frames"},
 "C09": {"text": "Table, slice, codec and single File/FileSystem calls: every function over a stream returns only stream errors or its own documented error under its stated condition (Verus: NotEnoughSpace implies no free entry; free/truncate terminate on the error path), and an exhaustive single-fault enumeration (Kani, one harness per failing call index) shows Err(Io(e)) carries the failing call's error. Whole Dir operations are not decided.",
         "note": _NOTE, "technique": "Verus postconditions over a Stream contract + Kani fault-injecting device, exhaustive single-fault enumeration"},
 "C10": {"text": "DiskSlice::write replicates to each mirror and nowhere else; fat_slice selects all copies (mirroring) or only the active one; FAT32 set preserves the top four bits; alloc never returns entries 0/1 or padding entries; format patterns of entries 0/1.",
         "note": _NOTE, "technique": "Kani geometry proofs over all validated BPBs + Verus frames on the table functions"},
 "C11": {"text": "Every device write issued by a contracted function lands at the specification address of the object named by its arguments and inside the volume: offset_from_cluster exact and in range for all validated BPBs and all clusters; File::write's single data write inside the file's cluster; zeroing inside the allocated cluster; FAT/root slices inside their regions; 32-byte editor write; one-byte status write; FS-info sector. 'The object belongs to the operation' is C03's invariant plus glue.",
         "note": _NOTE, "technique": "Kani device-log contracts + geometry proofs for all validated BPBs"},
 "C12": {"text": "Mechanism proved: set_dirty_flag writes exactly one byte at 0x25/0x41 only when the flags change, never clears mount-time bits, set(true);set(false) restores the mount-time byte for all 256 values; FsIoAdapter::write and File::write mark dirty before returning / before touching data; unmount clears it after the FS-info write-back; FAT-entry-1 flags decoded for all raw values.",
         "note": _NOTE, "technique": "Kani device-log contracts over all status bytes and flag states"},
 "C13": {"text": "Each non-mutating call (File::read/seek, stats, read_status_flags, unmount/drop from a clean state) is proved to issue no device write on a write-forbidden device from any state reachable by non-mutating calls, and to preserve the three 'clean' latches; Verus frame clauses (bytes unchanged) for the read-only table functions.",
         "note": _NOTE, "technique": "Kani harnesses over a write-forbidden nondeterministic device; Verus frame postconditions"},
 "C14": {"text": "The flush postcondition that makes the crash argument go through: after File::flush/drop returns, the entry is clean, its 32 bytes were written if dirty, and the LAST device call is flush(); File::write hands data straight to the device; DiskSlice holds no buffer. Crash-point enumeration itself is outside this family.",
         "note": _NOTE, "technique": "Kani device-log contracts (order of device calls)"},
 "C15": {"text": "Per-character acceptance proved for every char against the documented set; every length 0..300; ShortNameGenerator::new total on empty and multi-byte-first names; LFN slot generation lossless per step for every name length. Multi-character combinations are bounded (<= 4 ASCII chars).",
         "note": _NOTE, "technique": "Kani complete per-character / per-length harnesses; bounded string harnesses"},
 "C16": {"text": "Legality of every generated alias for every generator state, checksum link (lfn_checksum = specification; every slot carries it), reset/increment of next_iteration, hex encoding; the uniqueness step (after add_existing(e), generate() != e) is in the thorough tier (heavy). The scan-before-generate protocol of Dir::check_for_existence is an obligation on the real body (callees by contract); that the scan visits every live entry, and the retry-loop termination, are glue.",
         "note": _NOTE, "technique": "Kani complete harnesses over the full generator state; modular Kani harnesses: real caller body verified against callee contracts installed as #[kani::stub] with ghost state (scan protocol of Dir::check_for_existence: ghost precondition of generate())"},
 "C17": {"text": "Every per-slot function the iterator calls is total on arbitrary bytes (slot codec, short-name decode, date/time decode incl. out-of-range values, checksum); every non-allocating accessor of a returned DirEntry (attributes, kind, size, three stamps, short-name bytes, long-name units) is total and exact for every 32-byte short slot (dir::entry_accessors_total); the String-building accessors file_name / short_file_name are NOT under contract (CBMC timeout); the long-name builder step is in the thorough tier. Name-length bound and 'no foreign name' lemmas are not yet discharged (see DESIGN.md).",
         "note": _NOTE, "technique": "Kani complete harnesses over all 32-byte slots / 16-bit date-time words"},
 "C18": {"text": "Complete over the whole date/time domain: Kani function contracts on Date::encode / Time::encode (round trip at 10 ms / 2 s / 1 day resolution), decode total, setters touch only their fields, File::write stamps modified from the provider, read stamps accessed only with the option on, rename keeps stamps, a new entry (create_sfn_entry) carries all three stamps from the provider for every provider time.",
         "note": _NOTE, "technique": "Kani function contracts (proof_for_contract) + complete harnesses over every provider time; modular Kani harnesses: real caller body verified against callee contracts installed as #[kani::stub] with ghost state (create_dir / create_file)"},
 "C19": {"text": "Contract equivalence: the cfg-selected long-name generator is proved against one and the same contract in the alloc and the fixed-buffer build. Byte-identity of images over histories is not decided.",
         "note": _NOTE, "technique": "same Kani contract discharged under two feature sets"},
 "C20": {"text": "Unbounded in volume size: offset_from_cluster / slices exact in 64 bits for every validated BPB up to 2^32-1 sectors x 4096 bytes and every cluster incl. the last; table offsets k*4, k*2, k+k/2 do not overflow for k <= 2^28+1; alloc_cluster wraps from any hint and finds a free cluster whenever one exists; File read/write at a 16 TiB fixture; default formatting for every size up to 2^32-1 sectors.",
         "note": _NOTE, "technique": "Kani geometry proofs over all validated BPBs + Verus table contracts for any table size"},
}
