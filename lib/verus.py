"""Verus back end: mechanical extraction of real functions from /repo/src + spliced contracts.

A unit is a template /verif/verus/<unit>.rs.  Everything in it is specification (spec fns, lemmas, the
Stream contract trait, type declarations) except the `//@extract` blocks, which the extractor replaces on
every run by the CURRENT text of the named function from /repo/src, changed only by the rewrite rules
R1..R10 of DESIGN.md section 3.1 (each application is counted and reported in the evidence).

Directives (line comments in the template):

  //@include <file>                      textual include (shared vocabulary), relative to /verif/verus
  // @obl props=.. tier=.. fns=..        obligation annotation (as for Kani), precedes an //@extract or a proof fn
  // @desc ...
  //@extract file=src/x.rs scope="impl FatTrait for Fat32" fn=find_free as=fat32_find_free [self_prefix=fat32_] [ret=Type] [vis=pub]
  //@generics <S: Stream<E>, E>          replaces the generic parameter list AND the where clause (R4)
  //@spec                                 lines up to the next directive: requires/ensures/decreases clauses
  //@loop N                               lines up to the next directive: invariant/decreases of the N-th loop (0-based, source order)
  //@entry                                ghost text spliced at function entry (structural position only)
  //@loop_body_start N / //@loop_body_end N   ghost text at the first/last position of the N-th loop's body
  //@drop_debug_assert                    R2': debug_assert!s are dropped instead of becoming proof obligations
  //@endextract
  //@stub unit=<unit> fn=<as-name>        external_body declaration of a function proved in another unit, with
                                          exactly the contract text generated there (caller-vs-callee modularity)
"""
import json
import os
import re
import subprocess
import time
from concurrent.futures import ThreadPoolExecutor

from . import common as C

SEMANTIC = (
    "postcondition not satisfied", "precondition not satisfied", "invariant not satisfied",
    "assertion failed", "possible arithmetic underflow/overflow", "possible division by zero",
    "decreases not satisfied", "loop invariant", "might not be allowed", "possible bit shift underflow/overflow",
    "index out of bounds", "possible index out of bounds", "recommendation not met", "could not prove termination",
    "possible", "failed this postcondition", "failed precondition",
)
TOOL = ("not supported", "not yet supported", "rlimit", "resource limit", "timed out", "unsupported", "internal error")


class ExtractError(Exception):
    pass


def units():
    out = {}
    for fn in sorted(os.listdir(C.VERUS_DIR)):
        if fn.endswith(".rs") and not fn.startswith("inc_"):
            out[fn[:-3]] = os.path.join(C.VERUS_DIR, fn)
    return out


def prelude_files():
    return [os.path.join(C.VERUS_DIR, f) for f in sorted(os.listdir(C.VERUS_DIR)) if f.startswith("inc_")]


def list_obligations():
    obls = []
    for unit, path in units().items():
        for o in parse_unit_annotations(path):
            o["backend"] = "verus"
            o["unit"] = unit
            o["module"] = unit
            o["id"] = "verus:%s::%s" % (unit, o["name"])
            o["feat"] = ["fa"]
            obls.append(o)
    return obls


def parse_unit_annotations(path):
    """`// @obl` blocks; the obligation name is the `as=` of the following //@extract or the following fn name."""
    obls = []
    cur = None
    lines = open(path).read().split("\n")
    for i, line in enumerate(lines):
        m = C.ANNOT_RE.match(line)
        if m and not line.strip().startswith("//@"):
            key, rest = m.group(1), m.group(2).strip()
            if key == "obl":
                cur = {"props": [], "tier": "quick", "bound": "complete", "feat": ["fa"], "fns": [], "desc": "",
                       "heavy": False, "file": path, "line": i + 1, "twin": None, "timeout": None, "flags": []}
                for kv in rest.split():
                    if "=" in kv:
                        k, v = kv.split("=", 1)
                        if k in ("props", "fns", "flags"):
                            cur[k] = [x for x in v.split(",") if x]
                        else:
                            cur[k] = v
            elif key == "desc" and cur is not None:
                cur["desc"] = (cur["desc"] + " " + rest).strip()
            elif key == "bound" and cur is not None:
                cur["bound"] = rest
            continue
        if cur is not None:
            m1 = re.match(r"\s*//@extract\b(.*)", line)
            if m1:
                kv = parse_kv(m1.group(1))
                cur["name"] = kv.get("as", kv.get("fn"))
                obls.append(cur)
                cur = None
                continue
            m2 = re.match(r"\s*(?:pub\s+)?(?:broadcast\s+)?(?:proof\s+|exec\s+)?fn\s+(\w+)", line)
            if m2:
                cur["name"] = m2.group(1)
                obls.append(cur)
                cur = None
    return obls


def parse_kv(s):
    out = {}
    for m in re.finditer(r'(\w+)=("([^"]*)"|\S+)', s):
        out[m.group(1)] = m.group(3) if m.group(3) is not None else m.group(2)
    return out


# ---------------------------------------------------------------------------------------------------
# source scanning (string/comment aware)
# ---------------------------------------------------------------------------------------------------

def mask_code(text):
    """Return text of identical length where string/char literals and comments are replaced by spaces
    (newlines kept), so that brace/paren matching and keyword search are not fooled."""
    out = list(text)
    i, n = 0, len(text)
    while i < n:
        c = text[i]
        if text.startswith("//", i):
            j = text.find("\n", i)
            j = n if j < 0 else j
            for k in range(i, j):
                out[k] = " "
            i = j
        elif text.startswith("/*", i):
            j = text.find("*/", i + 2)
            j = n if j < 0 else j + 2
            for k in range(i, j):
                if out[k] != "\n":
                    out[k] = " "
            i = j
        elif c == '"':
            j = i + 1
            while j < n and text[j] != '"':
                j += 2 if text[j] == "\\" else 1
            for k in range(i + 1, min(j, n)):
                if out[k] != "\n":
                    out[k] = " "
            i = j + 1
        elif c == "'":
            # char literal or lifetime
            m = re.match(r"'(\\.[^']*|[^'\\])'", text[i:])
            if m:
                for k in range(i + 1, i + m.end() - 1):
                    out[k] = " "
                i += m.end()
            else:
                i += 1
        else:
            i += 1
    return "".join(out)


def match_close(masked, i, open_ch="{", close_ch="}"):
    """index of the bracket closing the one at masked[i]"""
    depth = 0
    for k in range(i, len(masked)):
        if masked[k] == open_ch:
            depth += 1
        elif masked[k] == close_ch:
            depth -= 1
            if depth == 0:
                return k
    raise ExtractError("unbalanced %s at %d" % (open_ch, i))


def find_fn(text, scope, name):
    """Locate `fn name` inside the block introduced by a line starting with `scope` (or at top level if
    scope is empty).  Returns (sig_start, body_open, body_close) indices into text."""
    masked = mask_code(text)
    lo, hi = 0, len(text)
    if scope:
        pat = re.compile(r"^[ \t]*" + r"\s+".join(re.escape(w) for w in scope.split()) + r"(?!\w)[^\n{;]*", re.M)
        ms = [m for m in pat.finditer(masked)]
        # the scope header may continue over several lines (where clauses) before its `{`
        cands = []
        for m in ms:
            b = masked.find("{", m.start())
            semi = masked.find(";", m.start())
            if b >= 0 and (semi < 0 or b < semi or True):
                cands.append((m.start(), b))
        if len(cands) != 1:
            raise ExtractError("scope %r found %d times" % (scope, len(cands)))
        lo = cands[0][1]
        hi = match_close(masked, lo)
    # fn at nesting depth 1 of the scope (0 at top level)
    want_depth = 1 if scope else 0
    depth = 0
    hits = []
    k = lo
    fn_re = re.compile(r"\bfn\s+" + re.escape(name) + r"\b")
    while k < hi:
        ch = masked[k]
        if ch == "{":
            depth += 1
        elif ch == "}":
            depth -= 1
        elif ch == "f" and depth == want_depth:
            m = fn_re.match(masked, k)
            if m and (k == 0 or not (masked[k - 1].isalnum() or masked[k - 1] == "_")):
                hits.append(k)
        k += 1
    if len(hits) != 1:
        raise ExtractError("fn %s in scope %r found %d times" % (name, scope, len(hits)))
    s = hits[0]
    # body opens at the first `{` at paren/angle depth 0 after the signature
    pd = 0
    b = None
    for k in range(s, hi):
        ch = masked[k]
        if ch in "([":
            pd += 1
        elif ch in ")]":
            pd -= 1
        elif ch == "{" and pd == 0:
            b = k
            break
        elif ch == ";" and pd == 0:
            raise ExtractError("fn %s has no body" % name)
    if b is None:
        raise ExtractError("fn %s: body not found" % name)
    e = match_close(masked, b)
    return s, b, e


def split_sig(sig):
    """sig = 'fn name<..>(params) -> Ret where ...' -> (name, generics, params, ret, where)"""
    masked = mask_code(sig)
    m = re.match(r"\s*fn\s+(\w+)\s*", masked)
    name = m.group(1)
    k = m.end()
    generics = ""
    if k < len(masked) and masked[k] == "<":
        depth = 0
        j = k
        while j < len(masked):
            if masked[j] == "<":
                depth += 1
            elif masked[j] == ">" and masked[j - 1] != "-":
                depth -= 1
                if depth == 0:
                    break
            j += 1
        generics = sig[k:j + 1]
        k = j + 1
    while masked[k].isspace():
        k += 1
    if masked[k] != "(":
        raise ExtractError("cannot parse signature: " + sig)
    pe = match_close(masked, k, "(", ")")
    params = sig[k + 1:pe]
    rest = sig[pe + 1:]
    mrest = masked[pe + 1:]
    w = re.search(r"\bwhere\b", mrest)
    where = ""
    if w:
        where = rest[w.end():].strip()
        rest = rest[:w.start()]
    ret = ""
    r = rest.strip()
    if r.startswith("->"):
        ret = r[2:].strip()
    return name, generics, " ".join(params.split()), " ".join(ret.split()), " ".join(where.split())


LOG_MACROS = ("trace", "debug", "info", "warn", "error")


def apply_rules(body, opts, counts):
    """body: text between the function's braces. Returns rewritten text; counts[rule] += n."""
    def bump(r, n=1):
        counts[r] = counts.get(r, 0) + n

    # R1: log macro statements
    while True:
        masked = mask_code(body)
        m = re.search(r"\b(" + "|".join(LOG_MACROS) + r")!\s*\(", masked)
        if not m:
            break
        op = masked.find("(", m.start())
        cl = match_close(masked, op, "(", ")")
        end = cl + 1
        while end < len(body) and body[end] in " \t":
            end += 1
        if end < len(body) and body[end] == ";":
            end += 1
        start = m.start()
        # swallow leading indentation and the trailing newline if the statement stood alone on its lines
        ls = body.rfind("\n", 0, start) + 1
        if body[ls:start].strip() == "":
            start = ls
            if end < len(body) and body[end] == "\n":
                end += 1
        body = body[:start] + body[end:]
        bump("R1")
    # R2: debug_assert!
    while True:
        masked = mask_code(body)
        m = re.search(r"\bdebug_assert!\s*\(", masked)
        if not m:
            break
        op = masked.find("(", m.start())
        cl = match_close(masked, op, "(", ")")
        inner = body[op + 1:cl]
        # drop a trailing message argument
        im = mask_code(inner)
        depth = 0
        cut = None
        for k, ch in enumerate(im):
            if ch in "([{":
                depth += 1
            elif ch in ")]}":
                depth -= 1
            elif ch == "," and depth == 0:
                cut = k
                break
        if cut is not None:
            inner = inner[:cut]
        if opts.get("drop_debug_assert"):
            end = cl + 1
            if end < len(body) and body[end] == ";":
                end += 1
            body = body[:m.start()] + body[end:]
            bump("R2-drop")
        else:
            body = body[:m.start()] + "assert(" + inner + ")" + body[cl + 1:]
            bump("R2")
    # R3: panic! / unreachable!
    while True:
        masked = mask_code(body)
        m = re.search(r"\b(panic|unreachable)!\s*\(", masked)
        if not m:
            break
        op = masked.find("(", m.start())
        cl = match_close(masked, op, "(", ")")
        body = body[:m.start()] + "verif_panic()" + body[cl + 1:]
        bump("R3")
    # R5: BorrowMut is the identity for both instantiations used by the crate
    def r5(m):
        bump("R5")
        return m.group(1) if m.group(2) == "." else "&mut " + m.group(1) + m.group(2)
    body = re.sub(r"(\bself\.\w+)\.borrow_mut\(\)(\.?)", r5, body)
    # R8: path prefixes
    n8 = len(re.findall(r"\bio::SeekFrom\b", body))
    body = re.sub(r"\bio::SeekFrom\b", "SeekFrom", body)
    n8 += len(re.findall(r"\bio::", body))
    body = re.sub(r"\bio::", "", body)
    for ty, pre in (("Fat12", "fat12_"), ("Fat16", "fat16_"), ("Fat32", "fat32_")):
        n8 += len(re.findall(r"\b%s::(?=\w+\s*\()" % ty, body))
        body = re.sub(r"\b%s::(?=\w+\s*\()" % ty, pre, body)
    if opts.get("self_prefix"):
        n8 += len(re.findall(r"\bSelf::(?=[a-z_]\w*\s*\()", body))
        body = re.sub(r"\bSelf::(?=[a-z_]\w*\s*\()", opts["self_prefix"], body)
    if n8:
        bump("R8", n8)
    # R9: inclusive-range membership test -> the equivalent pair of comparisons
    def r9(m):
        bump("R9")
        return "(%s <= %s && %s <= %s)" % (m.group(1), m.group(3), m.group(3), m.group(2))
    body = re.sub(r"\(\s*([\w_]+)\s*\.\.=\s*([\w_]+)\s*\)\s*\.contains\(\s*&\s*(\w+)\s*\)", r9, body)
    # R11: `x.into()` is std's blanket `From::from(x)` (definitional unfolding; vstd specifies From, not Into)
    def r11(m):
        bump("R11")
        return "core::convert::From::from(%s)" % m.group(1)
    body = re.sub(r"\b(\w+)\.into\(\)", r11, body)
    # R10: constructor used as a function value
    def r10(m):
        bump("R10")
        return "match %s { Some(verif_v) => Some(Ok(verif_v)), None => None }" % m.group(1)
    body = re.sub(r"(\bself\.\w+)\.map\(Ok\)", r10, body)
    return body


def find_loops(body):
    """Source-order list of (kw_index, header_open_brace_index, close_index) of loops in body."""
    masked = mask_code(body)
    loops = []
    for m in re.finditer(r"\b(while|loop|for)\b", masked):
        k = m.start()
        # `for` in `impl .. for ..` cannot occur inside a function body; `for<'a>` neither
        pd = 0
        b = None
        for j in range(m.end(), len(masked)):
            ch = masked[j]
            if ch in "([":
                pd += 1
            elif ch in ")]":
                pd -= 1
            elif ch == "{" and pd == 0:
                b = j
                break
            elif ch == ";" and pd == 0:
                break
        if b is None:
            continue
        loops.append((k, b, match_close(masked, b)))
    return loops


def splice(body, loop_specs, entry, body_start, body_end):
    loops = find_loops(body)
    for n in list(loop_specs) + list(body_start) + list(body_end):
        if n >= len(loops):
            raise ExtractError("loop ordinal %d does not exist (function has %d loops)" % (n, len(loops)))
    inserts = []  # (index, text)
    for n, txt in loop_specs.items():
        inserts.append((loops[n][1], "\n" + txt.rstrip() + "\n"))
    for n, txt in body_start.items():
        inserts.append((loops[n][1] + 1, "\n" + txt.rstrip() + "\n"))
    for n, txt in body_end.items():
        inserts.append((loops[n][2], "\n" + txt.rstrip() + "\n"))
    for idx, txt in sorted(inserts, key=lambda t: -t[0]):
        body = body[:idx] + txt + body[idx:]
    if entry:
        body = "\n" + entry.rstrip() + "\n" + body
    return body


def generate(unit, cache, vacuity=False):
    """Build the Verus input text of a unit from its template and the current /repo/src.
    Returns dict(text, fns: {as_name: {sig, spec, start_line, end_line, src_sha, ...}}, rules, errors).
    vacuity=True appends `ensures false` to every extracted function (each must then be REJECTED)."""
    # vacuity: False, or the name of the ONE extracted function that gets `ensures false` (a callee with
    # `ensures false` would make its callers verify trivially, so the pass is per function)
    ckey = (unit, vacuity)
    if ckey in cache:
        return cache[ckey]
    path = units()[unit]
    raw = open(path).read()
    # includes
    def inc(m):
        return open(os.path.join(C.VERUS_DIR, m.group(1).strip())).read()
    raw = re.sub(r"^[ \t]*//@include\s+(\S+)[ \t]*$", inc, raw, flags=re.M)
    lines = raw.split("\n")
    out = []
    fns = {}
    rules = {}
    errors = []
    i = 0
    while i < len(lines):
        line = lines[i]
        ms = re.match(r"\s*//@stub\b(.*)", line)
        if ms:
            kv = parse_kv(ms.group(1))
            try:
                other = generate(kv["unit"], cache, False)
                f = other["fns"].get(kv["fn"])
                if f is None:
                    raise ExtractError("stub %s not generated in unit %s" % (kv["fn"], kv["unit"]))
                out.append("#[verifier::external_body]")
                out.append(f["sig"])
                out.append(f["spec"].rstrip())
                out.append("{ unimplemented!() }")
                fns["stub:" + kv["fn"]] = {"stub_of": "verus:%s::%s" % (kv["unit"], kv["fn"])}
            except ExtractError as e:
                errors.append(("stub:" + kv.get("fn", "?"), str(e)))
            i += 1
            continue
        mc = re.match(r"\s*//@struct_check\b(.*)", line)
        if mc:
            kv = parse_kv(mc.group(1))
            try:
                text = open(os.path.join(C.REPO, kv["file"])).read()
                masked = mask_code(text)
                m = re.search(r"\bstruct\s+%s\b[^{;]*\{" % re.escape(kv["name"]), masked)
                if not m:
                    raise ExtractError("struct %s not found" % kv["name"])
                b = m.end() - 1
                e = match_close(masked, b)
                fields = re.findall(r"(?:^|,|\{)\s*(?:pub(?:\([^)]*\))?\s+)?(\w+)\s*:", masked[b:e])
                if fields != kv["fields"].split(","):
                    raise ExtractError("struct %s fields are %s, template transcribes %s" % (kv["name"], fields, kv["fields"]))
                fns["struct:" + kv["name"]] = {"struct_fields_checked": fields}
            except (ExtractError, KeyError, OSError) as ex:
                errors.append(("struct:" + kv.get("name", "?"), str(ex)))
            out.append(line)
            i += 1
            continue
        me = re.match(r"\s*//@extract\b(.*)", line)
        if not me:
            out.append(line)
            i += 1
            continue
        kv = parse_kv(me.group(1))
        sect = {"generics": None, "spec": [], "loops": {}, "entry": [], "bstart": {}, "bend": {}}
        opts = {"self_prefix": kv.get("self_prefix"), "drop_debug_assert": False}
        cur = None
        i += 1
        while i < len(lines) and not re.match(r"\s*//@endextract", lines[i]):
            l = lines[i]
            md = re.match(r"\s*//@(\w+)\s*(.*)", l)
            if md:
                d, arg = md.group(1), md.group(2).strip()
                if d == "generics":
                    sect["generics"] = arg
                    cur = None
                elif d == "spec":
                    cur = sect["spec"]
                elif d == "loop":
                    cur = sect["loops"].setdefault(int(arg), [])
                elif d == "entry":
                    cur = sect["entry"]
                elif d == "loop_body_start":
                    cur = sect["bstart"].setdefault(int(arg), [])
                elif d == "loop_body_end":
                    cur = sect["bend"].setdefault(int(arg), [])
                elif d == "drop_debug_assert":
                    opts["drop_debug_assert"] = True
                    cur = None
                else:
                    errors.append((kv.get("as", "?"), "unknown directive @" + d))
            elif cur is not None:
                cur.append(l)
            i += 1
        i += 1  # skip @endextract
        name = kv.get("as", kv.get("fn"))
        try:
            src_path = os.path.join(C.REPO, kv["file"])
            text = open(src_path).read()
            s, b, e = find_fn(text, kv.get("scope", ""), kv["fn"])
            sig = text[s:b]
            body = text[b + 1:e]
            fname, generics, params, ret, where = split_sig(sig)
            cnt = {}
            if sect["generics"] is not None:
                generics = sect["generics"]
                cnt["R4"] = 1
            elif where:
                raise ExtractError("where clause present but no //@generics given")
            if "ret" in kv:
                ret = kv["ret"]
                cnt["R6"] = 1
            params2 = re.sub(r"\bio::", "", params)
            ret2 = re.sub(r"\bio::", "", ret)
            body2 = apply_rules(body, opts, cnt)
            # cfg(feature) inside a contracted function is outside what the unit fixes
            if re.search(r"#\[cfg", mask_code(body2)):
                raise ExtractError("cfg attribute inside contracted function (unsupported construct)")
            body3 = splice(body2,
                           {n: "\n".join(t) for n, t in sect["loops"].items()},
                           "\n".join(sect["entry"]),
                           {n: "\n".join(t) for n, t in sect["bstart"].items()},
                           {n: "\n".join(t) for n, t in sect["bend"].items()})
            vis = kv.get("vis", "pub")
            retn = (" -> (%s: %s)" % (kv.get("retname", "r"), ret2)) if ret2 else ""
            sig_out = "%s fn %s%s(%s)%s" % (vis, name, generics, params2, retn)
            spec = "\n".join(sect["spec"])
            spec_emit = spec
            if vacuity and vacuity == name:
                spec_emit = (spec.rstrip() + "\n        false,") if "ensures" in spec else (spec.rstrip() + "\n    ensures\n        false,")
            out.append(sig_out)
            if spec_emit.strip():
                out.append(spec_emit.rstrip())
            out.append("{" + body3 + "}")
            # line accounting: out entries may contain newlines
            fns[name] = {"sig": sig_out, "spec": spec, "src": kv["file"], "src_fn": (kv.get("scope", "") + " :: " + kv["fn"]).strip(" :"),
                         "src_sha": C.sha256_text(text[s:e + 1]), "rules": cnt, "orig_lines": text[s:e + 1].count("\n") + 1}
            for r, n in cnt.items():
                rules[r] = rules.get(r, 0) + n
        except (ExtractError, KeyError, OSError) as ex:
            errors.append((name, "%s: %s" % (type(ex).__name__, ex)))
            out.append("// EXTRACTION FAILED for %s: %s" % (name, ex))
    text_out = "\n".join(out)
    # proof fns / other verified items written directly in the template also get line ranges (for attribution)
    res = {"text": text_out, "fns": fns, "rules": rules, "errors": errors}
    cache[ckey] = res
    return res


def item_ranges(text):
    """(name, start_line, end_line) of every `fn` item in the generated text (for error attribution).
    The body brace is the first `{` at paren depth 0 that starts its line (spec clauses such as
    `match r { .. }` contain braces of their own); balanced blocks met before it are skipped."""
    masked = mask_code(text)
    items = []
    for m in re.finditer(r"\bfn\s+(\w+)", masked):
        s = m.start()
        pd = 0
        b = None
        first = None
        k = m.end()
        n = len(masked)
        while k < n:
            ch = masked[k]
            if ch in "([":
                pd += 1
            elif ch in ")]":
                pd -= 1
            elif ch == "{" and pd == 0:
                if first is None:
                    first = k
                ls = masked.rfind("\n", 0, k) + 1
                if masked[ls:k].strip() == "":
                    b = k
                    break
                try:
                    k = match_close(masked, k)
                except ExtractError:
                    break
            elif ch == ";" and pd == 0:
                break
            k += 1
        if b is None:
            b = first
        if b is None:
            continue
        try:
            e = match_close(masked, b)
        except ExtractError:
            continue
        items.append((m.group(1), text.count("\n", 0, s) + 1, text.count("\n", 0, e) + 1))
    return items


ERR_RE = re.compile(r"^(error|warning)(?:\[[^\]]*\])?: (.*)$")
LOC_RE = re.compile(r"^\s*--> ([^:]+):(\d+):(\d+)")


def run_unit(scratch, unit, gen, log, extra_args=(), suffix=""):
    d = scratch.path("verus")
    os.makedirs(d, exist_ok=True)
    f = os.path.join(d, unit + suffix + ".rs")
    open(f, "w").write(gen["text"])
    cmd = ["verus", f, "--output-json", "--time", "--multiple-errors", "50", "--rlimit", "60"] + list(extra_args)
    t0 = time.time()
    try:
        p = subprocess.run(cmd, stdout=subprocess.PIPE, stderr=subprocess.PIPE, text=True, timeout=900, cwd=d)
        out, err, rc = p.stdout, p.stderr, p.returncode
    except subprocess.TimeoutExpired:
        out, err, rc = "", "verus: timed out after 900 s", -9
    wall = time.time() - t0
    log.write("\n$ %s\n[rc=%s wall=%.1fs]\n%s\n%s\n" % (" ".join(cmd), rc, wall, err[-60000:], out[-3000:]))
    data = None
    try:
        data = json.loads(out)
    except Exception:
        pass
    # parse diagnostics
    diags = []
    cur = None
    for line in err.split("\n"):
        m = ERR_RE.match(line)
        if m:
            cur = {"level": m.group(1), "msg": m.group(2), "line": None, "notes": []}
            diags.append(cur)
            continue
        m = LOC_RE.match(line)
        if m and cur is not None and cur["line"] is None and os.path.basename(m.group(1)) == os.path.basename(f):
            cur["line"] = int(m.group(2))
    errors = [d_ for d_ in diags if d_["level"] == "error" and not d_["msg"].startswith("aborting due to")]
    vr = (data or {}).get("verification-results", {})
    times = (data or {}).get("times-ms", {})
    return {"file": f, "cmd": " ".join(cmd), "rc": rc, "wall": wall, "errors": errors, "vr": vr, "times": times,
            "stderr_tail": err[-4000:], "json_ok": data is not None}


def classify_msg(msg):
    low = msg.lower()
    if any(t in low for t in TOOL):
        return "tool"
    if any(t in low for t in SEMANTIC):
        return "semantic"
    return "tool"


def run(scratch, obls, jobs, log, tier="quick"):
    """Returns ({(id, 'fa'): result}, meta)"""
    cache = {}
    by_unit = {}
    for o in obls:
        by_unit.setdefault(o["unit"], []).append(o)
    results = {}
    meta = {"cmds": [], "extraction": {"verus_units": {}}}

    def do(unit):
        try:
            gen = generate(unit, cache)
        except Exception as ex:  # template problem
            return unit, None, None, "extractor error: %s" % ex
        r = run_unit(scratch, unit, gen, log)
        return unit, gen, r, None

    # generation is cached and not thread safe: generate first, sequentially
    for unit in by_unit:
        try:
            generate(unit, cache)
        except Exception:
            pass
    with ThreadPoolExecutor(max_workers=max(1, min(jobs, 8))) as ex:
        outs = list(ex.map(do, list(by_unit)))
    for unit, gen, r, fatal in outs:
        uobls = by_unit[unit]
        if fatal:
            for o in uobls:
                results[(o["id"], "fa")] = {"verdict": "undecided", "reason": fatal, "seconds": 0, "obl": o, "feat": "fa"}
            continue
        meta["cmds"].append(r["cmd"])
        items = item_ranges(gen["text"])
        ext_err = dict(gen["errors"])
        meta["extraction"]["verus_units"][unit] = {
            "rewrite_rule_counts": gen["rules"],
            "functions": {n: {k: v for k, v in f.items() if not k.startswith("_") and k not in ("sig", "spec")}
                          for n, f in gen["fns"].items()},
            "extraction_errors": gen["errors"], "verified": r["vr"].get("verified"), "errors": r["vr"].get("errors"),
            "wall_s": round(r["wall"], 1),
        }
        # attribute errors to items
        per_item = {}
        unattributed = []
        for e in r["errors"]:
            hit = None
            if e["line"] is not None:
                for (n, s, t) in items:
                    if s <= e["line"] <= t:
                        hit = n
                        break
            if hit is None:
                unattributed.append(e)
            else:
                per_item.setdefault(hit, []).append(e)
        compile_fail = (not r["json_ok"]) or r["vr"].get("encountered-vir-error") or (
            r["rc"] != 0 and not r["errors"]) or any(classify_msg(e["msg"]) == "tool" for e in unattributed)
        nfun = max(1, len(uobls))
        for o in uobls:
            key = (o["id"], "fa")
            base = {"obl": o, "feat": "fa", "seconds": r["wall"] / nfun, "raw": {"unit_file": r["file"], "cmd": r["cmd"]}}
            if o["name"] in ext_err:
                results[key] = dict(base, verdict="undecided", reason="extraction: " + ext_err[o["name"]])
                continue
            errs = per_item.get(o["name"], [])
            sem = [e for e in errs if classify_msg(e["msg"]) == "semantic"]
            tool = [e for e in errs if classify_msg(e["msg"]) == "tool"]
            if sem:
                results[key] = dict(base, verdict="violation",
                                    reason="; ".join("%s @ generated line %s" % (e["msg"], e["line"]) for e in sem[:6]))
                results[key]["raw"]["errors"] = sem
                results[key]["raw"]["stderr_tail"] = r["stderr_tail"]
            elif tool or compile_fail:
                why = "; ".join(e["msg"] for e in (tool or unattributed)[:3]) or ("verus rc=%s" % r["rc"])
                results[key] = dict(base, verdict="undecided", reason="tool: " + why[:300])
            else:
                results[key] = dict(base, verdict="accepted", reason="")
    if tier == "thorough":
        vac = {}
        jobs_v = []
        for unit in by_unit:
            base = cache.get((unit, False))
            if not base:
                continue
            for n, f in base["fns"].items():
                if "src" in f:
                    jobs_v.append((unit, n))

        def do_v(job):
            unit, n = job
            try:
                g = generate(unit, {}, n)
                r = run_unit(scratch, unit, g, log, suffix="__vacuity_" + n)
            except Exception as ex:
                return job, None, str(ex)
            rejected = False
            for (nm, s_, t_) in item_ranges(g["text"]):
                if nm == n:
                    rejected = any(e["line"] is not None and s_ <= e["line"] <= t_ for e in r["errors"])
            return job, rejected, None

        with ThreadPoolExecutor(max_workers=max(1, min(jobs, 12))) as ex:
            vouts = list(ex.map(do_v, jobs_v))
        for (unit, n), rejected, err in vouts:
            vac.setdefault(unit, {"rejected_with_ensures_false": [], "NOT_rejected": []})
            (vac[unit]["rejected_with_ensures_false"] if rejected else vac[unit]["NOT_rejected"]).append(n if not err else n + ": " + err)
            if not rejected:
                for o in by_unit[unit]:
                    if o["name"] == n:
                        key = (o["id"], "fa")
                        if results.get(key, {}).get("verdict") == "accepted":
                            results[key]["verdict"] = "undecided"
                            results[key]["reason"] = "vacuity guard: the function verifies even with `ensures false` (contradictory requires)"
        meta["extraction"]["verus_vacuity_pass"] = vac
    return results, meta


def twins(scratch, results, all_obls, log, K):
    """For rejected Verus obligations that name a Kani twin, nothing is run here: the twin is itself an
    obligation of the same property and produces the replayable input in the same run."""
    return
