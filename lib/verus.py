"""Verus back end (mechanical extraction of real functions + spliced contracts)."""
import os
from . import common as C


def prelude_files():
    return []


def list_obligations():
    return []


def run(scratch, obls, jobs, log, tier="quick"):
    return {}, {}


def twins(scratch, results, all_obls, log, K):
    return
