#!/bin/bash
# Confirm a seeded breaking change independently: compiles, existing tests unchanged, demo fails with / passes without.
# usage: tools/confirm_seed.sh <name> <dir containing patch.diff, tests/seeded_demo.rs (or seeded_demo.rs), meta.json>
set -u
N=$1; SRC=$2; W=/tmp/confirm-$N
git -C /repo worktree remove --force $W 2>/dev/null; rm -rf $W
git -C /repo worktree add -q $W HEAD || exit 2
DEMO=$SRC/tests/seeded_demo.rs; [ -f $DEMO ] || DEMO=$SRC/seeded_demo.rs
cd $W
base=$(cargo test --workspace --no-fail-fast --offline 2>&1 | grep -E "^test .* \.\.\. ok" | wc -l)
cp $DEMO $W/tests/seeded_demo.rs
demo_clean=$(cargo test --offline --test seeded_demo 2>&1 | grep -E "^test result" | tail -1)
git apply $SRC/patch.diff || { echo "PATCH DOES NOT APPLY"; exit 2; }
demo_mut=$(cargo test --offline --test seeded_demo 2>&1 | grep -E "^test result" | tail -1)
rm $W/tests/seeded_demo.rs
mut=$(cargo test --workspace --no-fail-fast --offline 2>&1 | grep -E "^test .* \.\.\. ok" | wc -l)
echo "seed=$N existing_ok_before=$base existing_ok_after=$mut"
echo "demo without change: $demo_clean"
echo "demo with change:    $demo_mut"
cd /; git -C /repo worktree remove --force $W
