#!/bin/bash
# Developer helper (not used by registered checks): run harnesses on a persistent scratch copy, harness files read live from /verif/kani.
# usage: tools/dev.sh [-f fa|fn|fu] [-r(efresh copy)] harness_filter... [-- extra kani args]
set -e
FEAT=fa; REFRESH=0
while getopts "f:r" o; do case $o in f) FEAT=$OPTARG;; r) REFRESH=1;; esac; done; shift $((OPTIND-1))
case $FEAT in fa) F=std,alloc,lfn,unicode;; fn) F=std,lfn,unicode;; fu) F=std,alloc,lfn;; esac
V=$(cd "$(dirname "$0")/.."; pwd)
D=/var/tmp/dev-$FEAT$(echo $V | tr / _ | sed s/_verif$//)
if [ $REFRESH = 1 ] || [ ! -d $D/repo ]; then
  mkdir -p $D; rsync -a --delete --exclude /target --exclude /.git --exclude /tmp /repo/ $D/repo/
  python3 - "$D/repo" "$V" <<'PY'
import sys, os
sys.path.insert(0, sys.argv[2])
from lib import kani as K, common as C
repo = sys.argv[1]
C_KANI = C.KANI_DIR
for b in K.load_contracts():
    src = os.path.join(repo, b["file"]); lines = open(src).read().split("\n")
    hits = [i for i, l in enumerate(lines) if " ".join(l.split()).startswith(b["sig"])]
    assert len(hits) == 1, b
    lines[hits[0]:hits[0]] = b["attrs"]; open(src, "w").write("\n".join(lines))
with open(os.path.join(repo, "src/lib.rs"), "a") as f:
    f.write('\n#[cfg(kani)] #[path = "%s/common.rs"] pub(crate) mod verif_common;\n' % C_KANI)
ca = os.path.join(C_KANI, "CRATE_ATTRS")
if os.path.exists(ca):
    lib = os.path.join(repo, "src/lib.rs"); t = open(lib).read(); i = t.find("#![crate_type"); open(lib, "w").write(t[:i] + open(ca).read() + t[i:])
for stem, (src, child, path) in K.harness_modules().items():
    if "__cells" in stem and not os.environ.get("DEV_CELLS"):
        continue
    with open(os.path.join(repo, "src", src + ".rs"), "a") as f:
        f.write('\n#[cfg(kani)] #[path = "%s"] pub(crate) mod %s;\n' % (path, child))
PY
fi
cd $D/repo
H=(); while [ $# -gt 0 ] && [ "$1" != "--" ]; do H+=(--harness "$1"); shift; done; [ "$1" = "--" ] && shift
CARGO_NET_OFFLINE=true cargo kani --no-default-features --features $F -Z unstable-options -Z function-contracts -Z stubbing --output-format terse "${H[@]}" "$@" 2>&1 | grep -v "^warning\|^ *|\|^ *=\|^ *-->\|^$\|^[0-9 ]*|"
