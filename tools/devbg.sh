#!/bin/bash
# run tools/dev.sh in background with limits; log to /var/tmp/devlog/<name>.log
# usage: tools/devbg.sh <logname> <timeout_s> <dev.sh args...>
mkdir -p /var/tmp/devlog; N=$1; T=$2; shift 2
( ulimit -v 24000000; /usr/bin/time -v timeout $T /verif/tools/dev.sh "$@" ) > /var/tmp/devlog/$N.log 2>&1 &
echo started $N
