#!/usr/bin/env python3
"""Dev helper: run harnesses matching filters in the persistent dev copy and print a result table.
usage: tools/devrun.py [-f fa] [-j N] [-t secs] filter..."""
import sys, os, subprocess, json, time, argparse
sys.path.insert(0, os.path.join(os.path.dirname(os.path.abspath(__file__)), ".."))
from lib import kani as K, common as C
ap = argparse.ArgumentParser(); ap.add_argument("-f", default="fa"); ap.add_argument("-j", type=int, default=12)
ap.add_argument("-t", type=int, default=300); ap.add_argument("filters", nargs="+"); a = ap.parse_args()
repo = "/var/tmp/dev-%s/repo" % a.f
out = os.path.join(repo, "devrun-%d.json" % int(time.time()))
cmd = K.base_cmd(a.f) + ["--export-json", out, "--output-format", "terse", "--harness-timeout", "%ds" % a.t, "-j", str(a.j)]
for f in a.filters: cmd += ["--harness", f]
env = dict(os.environ, CARGO_NET_OFFLINE="true")
t0 = time.time()
p = subprocess.run("ulimit -v 30000000; " + " ".join("'%s'" % c for c in cmd), shell=True, cwd=repo, env=env, stdout=subprocess.PIPE, stderr=subprocess.STDOUT, text=True)
open("/var/tmp/devlog/devrun-last.log", "w").write(p.stdout)
if not os.path.exists(out):
    print(p.stdout[-3000:]); sys.exit(1)
d = json.load(open(out))
for r in d["verification_results"]["results"]:
    failed = [c for c in r["checks"] if c["status"] == "Failure"]
    covers = [c for c in r["checks"] if c["category"] == "cover"]
    badc = [c["description"] for c in covers if c["status"] != "Satisfied"]
    print("%-60s %-8s %7.1fs  %s %s" % (r["harness_id"].split("::", 1)[1], r["status"], r["duration_ms"] / 1000, "; ".join("%s@%s" % (c["description"][:90], (c.get("location") or {}).get("line")) for c in failed[:4]), ("UNSAT-COVER: " + "; ".join(badc)) if badc else ""))
print("wall %.0fs" % (time.time() - t0))
