#!/usr/bin/env python3
"""Writes MANIFEST.json from lib/props.py (claims) and the obligations found in kani/ and verus/."""
import json, os, sys
HERE = os.path.dirname(os.path.abspath(__file__)); sys.path.insert(0, os.path.join(HERE, ".."))
from lib import props as P, kani as K, verus as V
obls = K.list_obligations() + V.list_obligations()
checks = []
na = []
for pid in ["C%02d" % i for i in range(1, 21)]:
    mine = [o for o in obls if pid in o["props"]]
    claim = P.CLAIMS.get(pid)
    if not mine or claim is None or pid in P.NOT_APPLICABLE:
        na.append({"property_id": pid, "reason": P.NOT_APPLICABLE.get(pid, "no obligation built yet for this property (work in progress); nothing is claimed")})
        continue
    checks.append({
        "property_id": pid,
        "quick_cmd": "./check %s --tier quick" % pid,
        "thorough_cmd": "./check %s --tier thorough" % pid,
        "evidence_file": "/verif/evidence/%s.json" % pid,
        "replay_cmd_template": "./check %s --replay {path}" % pid,
        "engine": "contracts",
        "level_claimed": {"category": "proof", "text": claim["text"], "design_ref": "DESIGN.md section 5, " + pid},
        "level_note": claim["note"],
        "technique": claim["technique"],
    })
m = {
    "version": 1,
    "setup_cmd": "true",
    "hooks": {
        "guard": "kani (cfg set by the Kani compiler only; harness modules are appended to a scratch copy of /repo, never to /repo itself)",
        "enable": "none needed: ./check copies /repo's working tree to a scratch directory, appends `#[cfg(kani)] #[path=...] mod verif_kani;` lines and runs cargo kani there; Verus units are extracted from /repo/src on every run",
        "baseline_off_cmd": "cd /repo && cargo test --workspace --no-fail-fast --offline",
        "source_commits": [],
        "add_only": True,
    },
    "engines": [{"name": "contracts", "path": "/verif/check", "serves_properties": [c["property_id"] for c in checks],
                 "kind_free_text": "contract-based deductive verification of the real code: Kani 0.68 (CBMC) harnesses/function contracts as child modules of the real crate; Verus on mechanically extracted functions with spliced contracts"}],
    "checks": checks,
    "not_applicable": na,
    "notes": "exit 0 all obligations discharged; exit 1 VIOLATION; exit 2 undecided (tool limit / lost anchor) - never on the unchanged tree. See DESIGN.md.",
}
json.dump(m, open(os.path.join(HERE, "..", "MANIFEST.json"), "w"), indent=1)
print("claimed:", [c["property_id"] for c in checks]); print("n/a:", [n["property_id"] for n in na])
