#!/bin/bash
# run every claimed property's check once (tier $1, default quick), one after the other; summary lines to stdout
T=${1:-quick}; shift
cd "$(dirname "$0")/.."
for p in $(python3 -c "import json;print(' '.join(c['property_id'] for c in json.load(open('MANIFEST.json'))['checks']))"); do
  s=$(date +%s); ./check $p --tier $T "$@" > logs/all-$p-$T.txt 2>&1; rc=$?
  echo "== $p rc=$rc $(( $(date +%s) - s ))s $(grep -E '^SUMMARY' logs/all-$p-$T.txt)"
  grep -E "^VIOLATION|^UNDECIDED|^KNOWN" logs/all-$p-$T.txt | cut -c1-300
done
