#!/bin/bash
# run the relevant (restricted) check against every seeded change; results in /var/tmp/devlog/seeds.txt
cd /verif
run() { tools/try_seed.sh "$@" 2>&1 | head -8; }
{
run C02-a C02 --only 'seek_contract_fat16'
run C02-b C02 --only 'seek_contract_fat16'
run C03-a C03 --only 'lfn_generator_run_short'
run C03-b C03 --only 'classify|table_fat1.::fat1._get$'
run C04-a C04 --only 'unmount_fsinfo'
run C06-a C06 --only 'cell_512_512_none_2|cell_512_512_f12_2|fmt_default'
run C07-a C07 --only 'validate_total|validate_sound'
run C08-a C08 --only 'classify|fat32_get$'
run C09-a C09 --only 'diskslice_write'
run C10-a C10 --only 'geom_fat_slice'
run C10-b C10 --only 'alloc'
run C11-a C11 --only 'geom_offset'
run C12-a C12 --only 'write_contract_fat12_c0|write_contract_fat16_c1'
run C13-a C13 --only 'new_modular'
run C14-a C14 --only 'flush_contract'
run C15-a C15 --tier thorough --only 'lfnb_step_p0_o54'
run C16-a C16
run C17-a C17 --only 'lfnb_step_p2_o01|lfnb_step_p1_o01|lfnb_step_p3_o01'
run C18-a C18 --only 'editor_setters'
run C19-a C19 --tier thorough --only 'lfnb_step_p0_o54'
run C20-a C20 --only 'geom_offset|read_contract_huge'
} > /var/tmp/devlog/seeds.txt 2>&1
