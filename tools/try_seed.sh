#!/bin/bash
# Run a property's check against a seeded breaking change: apply to /repo, run, undo straight afterwards.
# usage: tools/try_seed.sh <seed dir name under /verif/seeded> <property> [extra check args]
S=$1; P=$2; shift 2
cd /verif
git -C /repo diff --quiet || { echo "/repo is dirty"; exit 2; }
git -C /repo apply /verif/seeded/$S/patch.diff || exit 2
./check $P --no-evidence "$@" > /var/tmp/devlog/seed-$S-$P.txt 2>&1; rc=$?
git -C /repo checkout -- .
echo "seed=$S prop=$P rc=$rc"; grep -E "^VIOLATION|^UNDECIDED|^SUMMARY|^KNOWN" /var/tmp/devlog/seed-$S-$P.txt | cut -c1-260 | head -12
