#!/bin/bash
# Like try_seed.sh but leaves /repo alone: the seed is applied to a scratch copy of /repo and the check is pointed
# at that copy with VERIF_REPO (used while another run is reading /repo).
# usage: tools/try_seed2.sh <seed dir name under /verif/seeded> <property> [extra check args]
S=$1; P=$2; shift 2
W=/var/tmp/seedrepo-$S
rm -rf $W; mkdir -p $W; rsync -a --exclude /target --exclude /.git /repo/ $W/
( cd $W && patch -s -p1 < /verif/seeded/$S/patch.diff ) || exit 2
cd /verif
VERIF_REPO=$W ./check $P --no-evidence "$@" > /var/tmp/devlog/seed-$S-$P.txt 2>&1; rc=$?
rm -rf $W
echo "seed=$S prop=$P rc=$rc"; grep -E "^VIOLATION|^UNDECIDED|^SUMMARY|^KNOWN" /var/tmp/devlog/seed-$S-$P.txt | cut -c1-260 | head -12
