#!/bin/bash
# validate MANIFEST.json and evidence/*.json against the schemas in /root/.vp; check discharged == obligations
cd "$(dirname "$0")/.."
python3-vt - <<'PY'
import json, glob, jsonschema, sys
ok = True
ms = json.load(open('/root/.vp/MANIFEST.schema.json')); es = json.load(open('/root/.vp/EVIDENCE.schema.json'))
m = json.load(open('MANIFEST.json'))
try:
    jsonschema.validate(m, ms); print("MANIFEST ok: %d checks, not_applicable=%s" % (len(m['checks']), [x.get('property_id', x) if isinstance(x, dict) else x for x in m.get('not_applicable', [])]))
except Exception as e:
    ok = False; print("MANIFEST INVALID:", str(e)[:300])
for c in m['checks']:
    f = c['evidence_file']
    try:
        e = json.load(open(f)); jsonschema.validate(e, es)
        cov = e.get('coverage', {})
        print("%s ok tier=%s obligations=%s discharged=%s" % (c['property_id'], e.get('tier'), cov.get('obligations'), cov.get('discharged')))
        if cov.get('obligations') != cov.get('discharged'):
            ok = False; print("   MISMATCH")
    except Exception as ex:
        ok = False; print(c['property_id'], "INVALID:", str(ex)[:300])
sys.exit(0 if ok else 1)
PY
