#!/usr/bin/env python3
"""Dev helper: generate a Verus unit from the current /repo and run verus on it. usage: tools/vdev.py <unit> [verus args]"""
import sys, os, subprocess
sys.path.insert(0, os.path.join(os.path.dirname(os.path.abspath(__file__)), ".."))
from lib import verus as V
unit = sys.argv[1]
g = V.generate(unit, {})
os.makedirs("/var/tmp/vdev", exist_ok=True)
f = "/var/tmp/vdev/%s.rs" % unit
open(f, "w").write(g["text"])
print("generated", f, "rules", g["rules"], "errors", g["errors"])
p = subprocess.run(["verus", f, "--multiple-errors", "20", "--time"] + sys.argv[2:], cwd="/var/tmp/vdev", stdout=subprocess.PIPE, stderr=subprocess.STDOUT, text=True)
print(p.stdout[-6000:])
