// ---- FAT table vocabulary (DESIGN.md 4.3), written from the FAT specification ----

// FAT16
pub open spec fn ent16(s: Seq<u8>, k: int) -> u32 {
    le16(s, 2 * k) as u32
}

pub open spec fn class16(v: u32) -> FatValue {
    if v == 0 {
        FatValue::Free
    } else if v == 0xFFF7 {
        FatValue::Bad
    } else if v >= 0xFFF8 {
        FatValue::EndOfChain
    } else {
        FatValue::Data(v)
    }
}

pub open spec fn enc16(v: FatValue) -> u32 {
    match v {
        FatValue::Free => 0u32,
        FatValue::Bad => 0xFFF7u32,
        FatValue::EndOfChain => 0xFFFFu32,
        FatValue::Data(n) => n,
    }
}

pub open spec fn free_count16(s: Seq<u8>, lo: int, hi: int) -> int
    decreases hi - lo,
{
    if lo >= hi { 0 } else { free_count16(s, lo, hi - 1) + if ent16(s, hi - 1) == 0 { 1int } else { 0int } }
}

pub open spec fn fits16(s: Seq<u8>, k: int) -> bool {
    0 <= k && 2 * k + 2 <= s.len()
}

// FAT32
pub open spec fn raw32(s: Seq<u8>, k: int) -> u32 {
    le32(s, 4 * k) as u32
}

/// low 28 bits of entry k (the top four bits are reserved and ignored on read)
pub open spec fn ent32(s: Seq<u8>, k: int) -> u32 {
    raw32(s, k) & 0x0FFF_FFFFu32
}

pub open spec fn special32(cluster: u32) -> bool {
    0x0FFF_FFF7 <= cluster && cluster <= 0x0FFF_FFFF
}

/// classification of a FAT32 entry (end-of-chain = every value F8..FF, bad = F7); special cluster numbers are never
/// reported free or as chain members
pub open spec fn class32(cluster: u32, v: u32) -> FatValue {
    if v == 0 {
        if special32(cluster) { FatValue::Bad } else { FatValue::Free }
    } else if v == 0x0FFF_FFF7 {
        FatValue::Bad
    } else if v >= 0x0FFF_FFF8 {
        FatValue::EndOfChain
    } else if special32(cluster) {
        FatValue::Bad
    } else {
        FatValue::Data(v)
    }
}

pub open spec fn enc32(v: FatValue) -> u32 {
    match v {
        FatValue::Free => 0u32,
        FatValue::Bad => 0x0FFF_FFF7u32,
        FatValue::EndOfChain => 0x0FFF_FFFFu32,
        FatValue::Data(n) => n,
    }
}

pub open spec fn free_count32(s: Seq<u8>, lo: int, hi: int) -> int
    decreases hi - lo,
{
    if lo >= hi { 0 } else { free_count32(s, lo, hi - 1) + if ent32(s, hi - 1) == 0 { 1int } else { 0int } }
}

pub open spec fn fits32(s: Seq<u8>, k: int) -> bool {
    0 <= k && 4 * k + 4 <= s.len()
}

// FAT12: entry k lives in the 16-bit little-endian window at byte k + k/2; even k = low 12 bits, odd k = high 12 bits
pub open spec fn off12(k: int) -> int {
    k + k / 2
}

pub open spec fn ent12(s: Seq<u8>, k: int) -> u32 {
    if k % 2 == 0 {
        (le16(s, off12(k)) % 4096) as u32
    } else {
        (le16(s, off12(k)) / 16) as u32
    }
}

pub open spec fn class12(v: u32) -> FatValue {
    if v == 0 {
        FatValue::Free
    } else if v == 0xFF7 {
        FatValue::Bad
    } else if v >= 0xFF8 {
        FatValue::EndOfChain
    } else {
        FatValue::Data(v)
    }
}

pub open spec fn enc12(v: FatValue) -> u32 {
    match v {
        FatValue::Free => 0u32,
        FatValue::Bad => 0xFF7u32,
        FatValue::EndOfChain => 0xFFFu32,
        FatValue::Data(n) => n,
    }
}

pub open spec fn free_count12(s: Seq<u8>, lo: int, hi: int) -> int
    decreases hi - lo,
{
    if lo >= hi { 0 } else { free_count12(s, lo, hi - 1) + if ent12(s, hi - 1) == 0 { 1int } else { 0int } }
}

pub open spec fn fits12(s: Seq<u8>, k: int) -> bool {
    0 <= k && off12(k) + 2 <= s.len()
}

// width-generic views
pub open spec fn ent(ft: FatType, s: Seq<u8>, k: int) -> u32 {
    match ft {
        FatType::Fat12 => ent12(s, k),
        FatType::Fat16 => ent16(s, k),
        FatType::Fat32 => ent32(s, k),
    }
}

pub open spec fn fits(ft: FatType, s: Seq<u8>, k: int) -> bool {
    match ft {
        FatType::Fat12 => fits12(s, k),
        FatType::Fat16 => fits16(s, k),
        FatType::Fat32 => fits32(s, k),
    }
}

pub open spec fn class(ft: FatType, cluster: u32, v: u32) -> FatValue {
    match ft {
        FatType::Fat12 => class12(v),
        FatType::Fat16 => class16(v),
        FatType::Fat32 => class32(cluster, v),
    }
}

pub open spec fn enc(ft: FatType, v: FatValue) -> u32 {
    match ft {
        FatType::Fat12 => enc12(v),
        FatType::Fat16 => enc16(v),
        FatType::Fat32 => enc32(v),
    }
}

pub open spec fn max_data(ft: FatType) -> u32 {
    match ft {
        FatType::Fat12 => 0xFFFu32,
        FatType::Fat16 => 0xFFFFu32,
        FatType::Fat32 => 0x0FFF_FFFFu32,
    }
}

pub open spec fn free_count(ft: FatType, s: Seq<u8>, lo: int, hi: int) -> int {
    match ft {
        FatType::Fat12 => free_count12(s, lo, hi),
        FatType::Fat16 => free_count16(s, lo, hi),
        FatType::Fat32 => free_count32(s, lo, hi),
    }
}

/// every entry other than k (and k2) that lies in the table keeps its value; for FAT32 including its reserved bits
pub open spec fn others_unchanged(ft: FatType, a: Seq<u8>, b: Seq<u8>, k: int, k2: int) -> bool {
    a.len() == b.len() && forall|j: int| j != k && j != k2 && fits(ft, b, j) ==> #[trigger] ent(ft, a, j) == ent(ft, b, j)
        && (ft == FatType::Fat32 ==> raw32(a, j) == raw32(b, j))
}
