// ---- shared vocabulary (DESIGN.md section 4): transcribed type declarations + the Stream contract ----
// Type declarations below are transcriptions of the crate's enums (no code); the extractor does not check
// their variant lists beyond what the extracted bodies use (a missing variant is a Verus compile error = exit 2).

pub enum Error<T> {
    Io(T),
    UnexpectedEof,
    WriteZero,
    InvalidInput,
    NotFound,
    AlreadyExists,
    DirectoryIsNotEmpty,
    CorruptedFileSystem,
    NotEnoughSpace,
    InvalidFileNameLength,
    UnsupportedFileNameCharacter,
}

pub enum SeekFrom {
    Start(u64),
    End(i64),
    Current(i64),
}

#[derive(Copy, Clone, PartialEq, Eq, Structural)]
pub enum FatType {
    Fat12,
    Fat16,
    Fat32,
}

#[derive(Copy, Clone, PartialEq, Eq, Structural)]
pub enum FatValue {
    Free,
    Data(u32),
    Bad,
    EndOfChain,
}

impl FatType {
    // transcription of fs.rs FatType::bits_per_fat_entry (three constant arms)
    pub fn bits_per_fat_entry(self) -> (r: u32)
        ensures r == (match self { FatType::Fat12 => 12u32, FatType::Fat16 => 16u32, FatType::Fat32 => 32u32 }),
    {
        match self {
            FatType::Fat12 => 12,
            FatType::Fat16 => 16,
            FatType::Fat32 => 32,
        }
    }
}

pub struct FsStatusFlags {
    pub dirty: bool,
    pub io_error: bool,
}

pub const RESERVED_FAT_ENTRIES: u32 = 2;

/// R3: reachability of a panic!/unreachable! in extracted code is a proof obligation
#[verifier::external_body]
pub fn verif_panic() -> !
    requires false,
{
    panic!()
}

/// A-STD: std's reflexive `impl<T> From<T> for T` is the identity (used where the crate writes `err.into()`
/// between identical error types; `?` already gets this from vstd)
pub assume_specification<T>[ <T as core::convert::From<T>>::from ](t: T) -> (r: T)
    ensures
        r == t,
;

/// the only error values a storage stack (device, DiskSlice, read_exact/write_all) hands to the table code
pub open spec fn is_stream_err<T>(e: Error<T>) -> bool {
    e is Io || e is UnexpectedEof || e is WriteZero || e is InvalidInput
}

pub open spec fn le16(s: Seq<u8>, p: int) -> int {
    s[p] as int + 256 * (s[p + 1] as int)
}

pub open spec fn le32(s: Seq<u8>, p: int) -> int {
    s[p] as int + 256 * (s[p + 1] as int) + 65536 * (s[p + 2] as int) + 16777216 * (s[p + 3] as int)
}

/// bytes outside [p, p+n) are unchanged and the length is the same
pub open spec fn same_outside(a: Seq<u8>, b: Seq<u8>, p: int, n: int) -> bool {
    a.len() == b.len() && forall|i: int| 0 <= i < a.len() && (i < p || i >= p + n) ==> a[i] == b[i]
}

/// Contract of a seekable byte stream as the table code uses it (A-DEV; discharged for DiskSlice in unit
/// fs_diskslice, for read_exact/write_all/LE helpers by the Kani obligations io::*).
pub trait Stream<E>: Sized {
    spec fn bytes(&self) -> Seq<u8>;
    spec fn pos(&self) -> int;

    fn seek(&mut self, pos: SeekFrom) -> (r: Result<u64, Error<E>>)
        ensures
            final(self).bytes() == old(self).bytes(),
            r is Err ==> is_stream_err(r->Err_0),
            r is Ok ==> 0 <= final(self).pos() <= old(self).bytes().len() && r->Ok_0 == final(self).pos(),
            r is Ok ==> (match pos {
                SeekFrom::Start(x) => final(self).pos() == x,
                SeekFrom::Current(d) => final(self).pos() == old(self).pos() + d,
                SeekFrom::End(d) => final(self).pos() == old(self).bytes().len() + d,
            }),
    ;

    fn read_u8(&mut self) -> (r: Result<u8, Error<E>>)
        ensures
            final(self).bytes() == old(self).bytes(),
            r is Err ==> is_stream_err(r->Err_0),
            r is Ok ==> 0 <= old(self).pos() && old(self).pos() + 1 <= old(self).bytes().len()
                && final(self).pos() == old(self).pos() + 1 && r->Ok_0 == old(self).bytes()[old(self).pos()],
    ;

    fn read_u16_le(&mut self) -> (r: Result<u16, Error<E>>)
        ensures
            final(self).bytes() == old(self).bytes(),
            r is Err ==> is_stream_err(r->Err_0),
            r is Ok ==> 0 <= old(self).pos() && old(self).pos() + 2 <= old(self).bytes().len()
                && final(self).pos() == old(self).pos() + 2 && r->Ok_0 as int == le16(old(self).bytes(), old(self).pos()),
    ;

    fn read_u32_le(&mut self) -> (r: Result<u32, Error<E>>)
        ensures
            final(self).bytes() == old(self).bytes(),
            r is Err ==> is_stream_err(r->Err_0),
            r is Ok ==> 0 <= old(self).pos() && old(self).pos() + 4 <= old(self).bytes().len()
                && final(self).pos() == old(self).pos() + 4 && r->Ok_0 as int == le32(old(self).bytes(), old(self).pos()),
    ;

    fn write_u8(&mut self, n: u8) -> (r: Result<(), Error<E>>)
        ensures
            same_outside(final(self).bytes(), old(self).bytes(), old(self).pos(), 1),
            r is Err ==> is_stream_err(r->Err_0),
            r is Ok ==> 0 <= old(self).pos() && old(self).pos() + 1 <= old(self).bytes().len()
                && final(self).pos() == old(self).pos() + 1 && final(self).bytes()[old(self).pos()] == n,
    ;

    fn write_u16_le(&mut self, n: u16) -> (r: Result<(), Error<E>>)
        ensures
            same_outside(final(self).bytes(), old(self).bytes(), old(self).pos(), 2),
            r is Err ==> is_stream_err(r->Err_0),
            r is Ok ==> 0 <= old(self).pos() && old(self).pos() + 2 <= old(self).bytes().len()
                && final(self).pos() == old(self).pos() + 2 && le16(final(self).bytes(), old(self).pos()) == n as int,
    ;

    fn write_u32_le(&mut self, n: u32) -> (r: Result<(), Error<E>>)
        ensures
            same_outside(final(self).bytes(), old(self).bytes(), old(self).pos(), 4),
            r is Err ==> is_stream_err(r->Err_0),
            r is Ok ==> 0 <= old(self).pos() && old(self).pos() + 4 <= old(self).bytes().len()
                && final(self).pos() == old(self).pos() + 4 && le32(final(self).bytes(), old(self).pos()) == n as int,
    ;
}
