// Verus unit: the width-dispatching functions of src/table.rs and the cluster allocator, checked against the
// CONTRACTS of the per-width functions (proved in units table_fat12/16/32): callers are verified against
// callee contracts, not bodies.
use vstd::prelude::*;

verus! {

//@include inc_stream.rs

pub mod spec {
use vstd::prelude::*;
use super::*;
//@include inc_fatspec.rs

/// cluster counts a volume of this width can have (FatType::from_clusters thresholds; FAT32: the format's maximum)
pub open spec fn total_ok(ft: FatType, total: u32) -> bool {
    match ft {
        FatType::Fat12 => total < 4085,
        FatType::Fat16 => total < 65525,
        FatType::Fat32 => total <= 0x0FFF_FFF4,
    }
}

pub open spec fn value_ok(ft: FatType, cluster: u32, v: FatValue) -> bool {
    (v is Data ==> v->Data_0 <= max_data(ft)) && !(ft == FatType::Fat32 && v is Free && special32(cluster))
}

pub open spec fn no_free_in(ft: FatType, s: Seq<u8>, lo: int, hi: int) -> bool {
    forall|k: int| lo <= k < hi ==> ent(ft, s, k) != 0
}

pub open spec fn bits(ft: FatType) -> int {
    match ft {
        FatType::Fat12 => 12,
        FatType::Fat16 => 16,
        FatType::Fat32 => 32,
    }
}

/// number of entries of a table of bytes_per_fat bytes
pub open spec fn nent(ft: FatType, bytes_per_fat: u64) -> int {
    (bytes_per_fat as int * 8) / bits(ft)
}

pub open spec fn all_zero(s: Seq<u8>) -> bool {
    forall|i: int| 0 <= i < s.len() ==> s[i] == 0
}
} // mod spec

pub mod lemmas_alloc {
    use vstd::prelude::*;
    use super::*;
    use super::spec::*;

    /// a write confined to the bytes of the two reserved leading entries leaves every cluster entry (k >= 2) as it was
    pub broadcast proof fn lemma_header_write(ft: FatType, a: Seq<u8>, b: Seq<u8>, p: int, n: int, k: int)
        requires
            #[trigger] same_outside(a, b, p, n),
            0 <= p,
            p + n <= (match ft { FatType::Fat12 => 3int, FatType::Fat16 => 4int, FatType::Fat32 => 8int }),
            k >= 2,
            fits(ft, b, k),
        ensures
            #[trigger] ent(ft, a, k) == ent(ft, b, k),
            fits(ft, a, k),
    {
        match ft {
            FatType::Fat12 => {
                assert(off12(k) >= 3);
            }
            FatType::Fat16 => {}
            FatType::Fat32 => {}
        }
    }
}

pub mod code {
use vstd::prelude::*;
use super::*;
use super::spec::*;
use super::lemmas_alloc;

broadcast use lemmas_alloc::lemma_header_write;

//@stub unit=table_fat12 fn=fat12_get
//@stub unit=table_fat12 fn=fat12_set
//@stub unit=table_fat12 fn=fat12_find_free
//@stub unit=table_fat12 fn=fat12_count_free
//@stub unit=table_fat16 fn=fat16_get
//@stub unit=table_fat16 fn=fat16_get_raw
//@stub unit=table_fat16 fn=fat16_set
//@stub unit=table_fat16 fn=fat16_find_free
//@stub unit=table_fat16 fn=fat16_count_free
//@stub unit=table_fat32 fn=fat32_get
//@stub unit=table_fat32 fn=fat32_get_raw
//@stub unit=table_fat32 fn=fat32_set
//@stub unit=table_fat32 fn=fat32_find_free
//@stub unit=table_fat32 fn=fat32_count_free

// @obl props=C03,C08,C09,C13 tier=quick fns=read_fat
// @desc read_fat, any width, any table size: Ok(v) => v = the specification's classification of entry k; table unchanged; errors are stream errors (checked against the per-width contracts)
//@extract file=src/table.rs fn=read_fat as=read_fat
//@generics <S: Stream<E>, E>
//@spec
    requires
        cluster <= 0x1000_0001,
    ensures
        final(fat).bytes() == old(fat).bytes(),
        r is Err ==> is_stream_err(r->Err_0),
        r is Ok ==> fits(fat_type, old(fat).bytes(), cluster as int)
            && r->Ok_0 == class(fat_type, cluster, ent(fat_type, old(fat).bytes(), cluster as int)),
//@endextract

// @obl props=C03,C08,C09,C10 tier=quick fns=write_fat
// @desc write_fat, any width: Ok => entry k encodes value, EVERY other entry of the table is unchanged (FAT32: including reserved bits; the reserved bits of entry k itself survive); errors are stream errors
//@extract file=src/table.rs fn=write_fat as=write_fat
//@generics <S: Stream<E>, E>
//@spec
    requires
        cluster <= 0x1000_0001,
        value_ok(fat_type, cluster, value),
    ensures
        final(fat).bytes().len() == old(fat).bytes().len(),
        r is Err ==> is_stream_err(r->Err_0),
        r is Ok ==> fits(fat_type, old(fat).bytes(), cluster as int)
            && ent(fat_type, final(fat).bytes(), cluster as int) == enc(fat_type, value)
            && others_unchanged(fat_type, final(fat).bytes(), old(fat).bytes(), cluster as int, cluster as int)
            && (fat_type == FatType::Fat32 ==> raw32(final(fat).bytes(), cluster as int) & 0xF000_0000u32
                == raw32(old(fat).bytes(), cluster as int) & 0xF000_0000u32),
//@endextract

// @obl props=C02,C03,C08,C09 tier=quick fns=get_next_cluster
// @desc get_next_cluster: Ok(Some(n)) iff entry k is a data pointer n (whatever its order on disk: fragmented / out-of-order chains are followed entry by entry); Ok(None) for free, bad and every end-of-chain marker
//@extract file=src/table.rs fn=get_next_cluster as=get_next_cluster
//@generics <S: Stream<E>, E>
//@spec
    requires
        cluster <= 0x1000_0001,
    ensures
        final(fat).bytes() == old(fat).bytes(),
        r is Err ==> is_stream_err(r->Err_0),
        r is Ok ==> fits(fat_type, old(fat).bytes(), cluster as int) && (match class(fat_type, cluster, ent(fat_type, old(fat).bytes(), cluster as int)) {
            FatValue::Data(n) => r->Ok_0 == Some(n),
            _ => r->Ok_0 is None,
        }),
//@endextract

// @obl props=C05,C09,C10,C20 tier=quick fns=find_free_cluster
// @desc find_free_cluster over [start,end), any width: Ok(c) => first free entry in range; Err(NotEnoughSpace) => no free entry in range; otherwise a stream error; table unchanged
//@extract file=src/table.rs fn=find_free_cluster as=find_free_cluster
//@generics <S: Stream<E>, E>
//@spec
    requires
        start_cluster < end_cluster <= 0x1000_0001,
    ensures
        final(fat).bytes() == old(fat).bytes(),
        match r {
            Ok(c) => start_cluster <= c < end_cluster && fits(fat_type, old(fat).bytes(), c as int)
                && ent(fat_type, old(fat).bytes(), c as int) == 0 && no_free_in(fat_type, old(fat).bytes(), start_cluster as int, c as int),
            Err(Error::NotEnoughSpace) => no_free_in(fat_type, old(fat).bytes(), start_cluster as int, end_cluster as int),
            Err(e) => is_stream_err(e),
        },
//@endextract

// @obl props=C03,C05,C09,C10,C20 tier=quick fns=alloc_cluster
// @desc alloc_cluster, any width, any table size up to the format's limit, ANY hint (None, at / before / past the last cluster, u32::MAX) and prev: Ok(c) => 2 <= c < total+2 (never entry 0/1, never a padding entry), c was free, c is now end-of-chain, prev now points to c, EVERY other entry unchanged (no cross-link or cycle can be introduced); the scan starts at the hint and WRAPS AROUND to cluster 2; Err(NotEnoughSpace) ONLY IF no entry in [2, total+2) is free, with the table untouched; any other error is the storage's (a failed scan is never masked as out-of-space)
//@extract file=src/table.rs fn=alloc_cluster as=alloc_cluster
//@generics <S: Stream<E>, E>
//@spec
    requires
        1 <= total_clusters,
        total_ok(fat_type, total_clusters),
        hint is Some ==> hint->Some_0 >= 2,
        prev_cluster is Some ==> 2 <= prev_cluster->Some_0 < total_clusters + 2
            && ent(fat_type, old(fat).bytes(), prev_cluster->Some_0 as int) != 0,
    ensures
        match r {
            Ok(c) => 2 <= c < total_clusters + 2
                && fits(fat_type, old(fat).bytes(), c as int)
                && ent(fat_type, old(fat).bytes(), c as int) == 0
                && ent(fat_type, final(fat).bytes(), c as int) == enc(fat_type, FatValue::EndOfChain)
                && (prev_cluster is Some ==> ent(fat_type, final(fat).bytes(), prev_cluster->Some_0 as int) == c)
                && others_unchanged(fat_type, final(fat).bytes(), old(fat).bytes(), c as int,
                    if prev_cluster is Some { prev_cluster->Some_0 as int } else { c as int })
                && ({
                    let start = if hint is Some && hint->Some_0 < total_clusters + 2 { hint->Some_0 as int } else { 2int };
                    if c >= start {
                        no_free_in(fat_type, old(fat).bytes(), start, c as int)
                    } else {
                        no_free_in(fat_type, old(fat).bytes(), start, total_clusters as int + 2)
                            && no_free_in(fat_type, old(fat).bytes(), 2, c as int)
                    }
                }),
            Err(Error::NotEnoughSpace) => no_free_in(fat_type, old(fat).bytes(), 2, total_clusters as int + 2)
                && final(fat).bytes() == old(fat).bytes(),
            Err(e) => is_stream_err(e),
        },
//@endextract

// @obl props=C05,C09,C13 tier=quick fns=count_free_clusters
// @desc count_free_clusters, any width: Ok(n) => n = number of free entries in [2, total+2) (padding entries past the last cluster are not counted); table unchanged
//@extract file=src/table.rs fn=count_free_clusters as=count_free_clusters
//@generics <S: Stream<E>, E>
//@spec
    requires
        total_clusters <= 0x0FFF_FFFF,
    ensures
        final(fat).bytes() == old(fat).bytes(),
        r is Err ==> is_stream_err(r->Err_0),
        r is Ok ==> r->Ok_0 == free_count(fat_type, old(fat).bytes(), 2, total_clusters as int + 2),
//@endextract

// @obl props=C08,C09,C12,C13 tier=quick fns=read_fat_flags
// @desc read_fat_flags: FAT12 has no flags (clean, no table access); FAT16: dirty = bit 15 of entry 1 clear, io_error = bit 14 clear; FAT32: bits 27 / 26; table unchanged; errors are stream errors
//@extract file=src/table.rs fn=read_fat_flags as=read_fat_flags
//@generics <S: Stream<E>, E>
//@spec
    ensures
        final(fat).bytes() == old(fat).bytes(),
        r is Err ==> is_stream_err(r->Err_0),
        r is Ok ==> (match fat_type {
            FatType::Fat12 => !r->Ok_0.dirty && !r->Ok_0.io_error,
            FatType::Fat16 => fits16(old(fat).bytes(), 1)
                && r->Ok_0.dirty == (ent16(old(fat).bytes(), 1) & (1u32 << 15) == 0)
                && r->Ok_0.io_error == (ent16(old(fat).bytes(), 1) & (1u32 << 14) == 0),
            FatType::Fat32 => fits32(old(fat).bytes(), 1)
                && r->Ok_0.dirty == (raw32(old(fat).bytes(), 1) & (1u32 << 27) == 0)
                && r->Ok_0.io_error == (raw32(old(fat).bytes(), 1) & (1u32 << 26) == 0),
        }),
//@endextract

// @obl props=C03,C06,C10 tier=quick fns=format_fat
// @desc format_fat on a zeroed table of ANY size whose entry count stays below the FAT32 special range: Ok => every cluster entry [2, total+2) is FREE, every padding entry [total+2, number of entries) is end-of-chain (never handed out), both loops terminate; errors are stream errors. (Entries 0 and 1: Kani obligation format_fat_reserved_entries.)
//@extract file=src/table.rs fn=format_fat as=format_fat
//@generics <S: Stream<E>, E>
//@spec
    requires
        old(fat).pos() == 0,
        old(fat).bytes().len() == bytes_per_fat,
        // the table has been zeroed by the caller (format_volume): every cluster entry reads as free
        forall|k: int| 2 <= k < total_clusters + 2 ==> fits(fat_type, old(fat).bytes(), k) && ent(fat_type, old(fat).bytes(), k) == 0,
        total_ok(fat_type, total_clusters),
        bytes_per_fat >= 16,
        nent(fat_type, bytes_per_fat) <= 0x0FFF_FFF0,
        total_clusters + 2 <= nent(fat_type, bytes_per_fat),
    ensures
        r is Err ==> is_stream_err(r->Err_0),
        r is Ok ==> final(fat).bytes().len() == old(fat).bytes().len()
            && (forall|k: int| 2 <= k < total_clusters + 2 ==> ent(fat_type, final(fat).bytes(), k) == 0)
            && (forall|k: int| total_clusters + 2 <= k < nent(fat_type, bytes_per_fat)
                ==> ent(fat_type, final(fat).bytes(), k) == enc(fat_type, FatValue::EndOfChain)),
//@loop 0
        invariant
            start_cluster == total_clusters + 2,
            end_cluster as int == nent(fat_type, bytes_per_fat),
            end_cluster <= 0x0FFF_FFF0,
            total_ok(fat_type, total_clusters),
            fat.bytes().len() == old(fat).bytes().len(),
            fat.bytes().len() == bytes_per_fat,
            forall|k: int| 2 <= k < total_clusters + 2 ==> ent(fat_type, fat.bytes(), k) == 0,
            forall|k: int| start_cluster <= k < cluster ==> ent(fat_type, fat.bytes(), k) == enc(fat_type, FatValue::EndOfChain),
//@loop 1
        invariant
            end_bad_cluster <= 0x1000_0000,
            fat.bytes().len() == old(fat).bytes().len(),
            end_cluster > 0x0FFF_FFF0,
//@endextract

} // mod code

} // verus!

fn main() {}
