// Verus unit: FAT12 entry functions of src/table.rs (12-bit packed entries), for tables of ANY size.
use vstd::prelude::*;

verus! {

//@include inc_stream.rs

pub mod spec {
use vstd::prelude::*;
use super::*;
//@include inc_fatspec.rs

/// byte-level effect of a FAT12 entry update: only the two-byte window changes, and in it only the 12 bits of entry k
pub open spec fn set12_bytes(old: Seq<u8>, new: Seq<u8>, k: int, raw: int) -> bool {
    fits12(old, k) && same_outside(new, old, off12(k), 2) && le16(new, off12(k)) == (if k % 2 == 0 {
        (le16(old, off12(k)) / 4096) * 4096 + raw
    } else {
        le16(old, off12(k)) % 16 + raw * 16
    })
}

} // mod spec

pub mod lemmas12 {
    use vstd::prelude::*;
    use super::*;
    use super::spec::*;

    pub broadcast proof fn lemma_parity(c: u32)
        ensures
            #[trigger] (c & 1) == 0 <==> (c as int) % 2 == 0,
            (c & 1) == 0 || (c & 1) == 1,
    {
        assert((c & 1) == 0 <==> c % 2 == 0) by (bit_vector);
        assert((c & 1) == 0 || (c & 1) == 1) by (bit_vector);
    }

    pub broadcast proof fn lemma_low12(p: u16)
        ensures
            #[trigger] (p & 0x0FFF) == p % 4096,
    {
        assert((p & 0x0FFF) == p % 4096) by (bit_vector);
    }

    pub broadcast proof fn lemma_high12(p: u16)
        ensures
            #[trigger] (p >> 4) == p / 16,
    {
        assert((p >> 4) == p / 16) by (bit_vector);
    }

    pub broadcast proof fn lemma_pack_even(old: u16, raw: u16)
        requires
            raw <= 0xFFF,
        ensures
            #[trigger] ((old & 0xF000) | raw) == (old / 4096) * 4096 + raw,
    {
        assert(((old & 0xF000) | raw) == (old / 4096) * 4096 + raw) by (bit_vector)
            requires raw <= 0xFFF;
    }

    pub broadcast proof fn lemma_pack_odd(old: u16, raw: u16)
        requires
            raw <= 0xFFF,
        ensures
            #[trigger] ((old & 0x000F) | (raw << 4)) == old % 16 + raw * 16,
    {
        assert(((old & 0x000F) | (raw << 4)) == old % 16 + raw * 16) by (bit_vector)
            requires raw <= 0xFFF;
    }

    /// sliding the 16-bit window by one byte (find_free, odd step)
    pub broadcast proof fn lemma_slide(p: u16, nb: u8)
        ensures
            #[trigger] ((p >> 8) | ((nb as u16) << 8)) == p / 256 + 256 * (nb as u16),
    {
        assert(((p >> 8) | ((nb as u16) << 8)) == p / 256 + 256 * (nb as u16)) by (bit_vector);
    }

    /// count_free, odd step: the code's value is zero exactly when the 12-bit entry is zero
    pub broadcast proof fn lemma_count_odd(b2: u16, prev: u16)
        requires
            b2 <= 0xFF,
        ensures
            #[trigger] ((b2 << 8) | (prev >> 12)) == 0 <==> (b2 == 0 && prev / 4096 == 0),
    {
        assert((((b2 << 8) | (prev >> 12)) == 0) <==> (b2 == 0 && prev / 4096 == 0)) by (bit_vector)
            requires b2 <= 0xFF;
    }

    pub proof fn lemma_split(b0: int, b1: int, v: int)
        requires v == b0 + 256 * b1, 0 <= b0 < 256, 0 <= b1 < 256,
        ensures b0 == v % 256, b1 == v / 256,
    {
    }

    pub proof fn lemma_set12_even(old: Seq<u8>, new: Seq<u8>, k: int, raw: int)
        requires
            set12_bytes(old, new, k, raw), 0 <= raw <= 0xFFF, k % 2 == 0,
        ensures
            ent12(new, k) == raw,
            new.len() == old.len(),
            forall|j: int| j != k && fits12(old, j) ==> #[trigger] ent12(new, j) == ent12(old, j),
    {
        let off = off12(k);
        let o0 = old[off] as int;
        let o1 = old[off + 1] as int;
        let n0 = new[off] as int;
        let n1 = new[off + 1] as int;
        let ov = o0 + 256 * o1;
        let nv = n0 + 256 * n1;
        assert(le16(old, off) == ov);
        assert(le16(new, off) == nv);
        assert(nv == (ov / 4096) * 4096 + raw);
        lemma_split(n0, n1, nv);
        lemma_split(o0, o1, ov);
        assert(ov / 4096 == o1 / 16);
        assert(nv / 4096 == ov / 4096);
        assert(nv % 4096 == raw);
        assert(n1 / 16 == nv / 4096);
        assert(n1 / 16 == o1 / 16);
        assert forall|j: int| j != k && fits12(old, j) implies #[trigger] ent12(new, j) == ent12(old, j) by {
            let oj = off12(j);
            if j == k + 1 {
                assert(oj == off + 1);
                assert(new[off + 2] == old[off + 2]);
                let b2 = old[off + 2] as int;
                assert(le16(new, oj) == n1 + 256 * b2);
                assert(le16(old, oj) == o1 + 256 * b2);
                assert((n1 + 256 * b2) / 16 == n1 / 16 + 16 * b2);
                assert((o1 + 256 * b2) / 16 == o1 / 16 + 16 * b2);
            } else if j < k {
                assert(oj + 2 <= off);
                assert(new[oj] == old[oj] && new[oj + 1] == old[oj + 1]);
            } else {
                assert(oj >= off + 2);
                assert(new[oj] == old[oj] && new[oj + 1] == old[oj + 1]);
            }
        }
    }

    pub proof fn lemma_set12_odd(old: Seq<u8>, new: Seq<u8>, k: int, raw: int)
        requires
            set12_bytes(old, new, k, raw), 0 <= raw <= 0xFFF, k % 2 != 0,
        ensures
            ent12(new, k) == raw,
            new.len() == old.len(),
            forall|j: int| j != k && fits12(old, j) ==> #[trigger] ent12(new, j) == ent12(old, j),
    {
        let off = off12(k);
        let o0 = old[off] as int;
        let o1 = old[off + 1] as int;
        let n0 = new[off] as int;
        let n1 = new[off + 1] as int;
        let ov = o0 + 256 * o1;
        let nv = n0 + 256 * n1;
        assert(le16(old, off) == ov);
        assert(le16(new, off) == nv);
        assert(nv == ov % 16 + raw * 16);
        lemma_split(n0, n1, nv);
        lemma_split(o0, o1, ov);
        assert(ov % 16 == o0 % 16);
        assert(nv % 16 == ov % 16);
        assert(nv / 16 == raw);
        assert(n0 % 16 == nv % 16);
        assert forall|j: int| j != k && fits12(old, j) implies #[trigger] ent12(new, j) == ent12(old, j) by {
            let oj = off12(j);
            if j == k - 1 {
                assert(oj == off - 1);
                assert(new[off - 1] == old[off - 1]);
                let bm = old[off - 1] as int;
                assert(le16(new, oj) == bm + 256 * n0);
                assert(le16(old, oj) == bm + 256 * o0);
                assert((bm + 256 * n0) % 4096 == bm + 256 * (n0 % 16));
                assert((bm + 256 * o0) % 4096 == bm + 256 * (o0 % 16));
            } else if j < k {
                assert(oj + 2 <= off);
                assert(new[oj] == old[oj] && new[oj + 1] == old[oj + 1]);
            } else {
                assert(oj >= off + 2);
                assert(new[oj] == old[oj] && new[oj + 1] == old[oj + 1]);
            }
        }
    }

    /// from the byte-level effect to the entry-level contract: entry k holds raw, EVERY other entry keeps its 12 bits
    pub broadcast proof fn lemma_set12(old: Seq<u8>, new: Seq<u8>, k: int, raw: int)
        requires
            #[trigger] set12_bytes(old, new, k, raw),
            0 <= raw <= 0xFFF,
        ensures
            ent12(new, k) == raw,
            others_unchanged(FatType::Fat12, new, old, k, k),
    {
        if k % 2 == 0 {
            lemma_set12_even(old, new, k, raw);
        } else {
            lemma_set12_odd(old, new, k, raw);
        }
        assert forall|j: int| j != k && j != k && fits(FatType::Fat12, old, j) implies #[trigger] ent(FatType::Fat12, new, j) == ent(FatType::Fat12, old, j) by {
            assert(ent12(new, j) == ent12(old, j));
        }
    }
}

pub mod code {
use vstd::prelude::*;
use super::*;
use super::spec::*;
use super::lemmas12;

broadcast use {
    lemmas12::lemma_parity,
    lemmas12::lemma_low12,
    lemmas12::lemma_high12,
    lemmas12::lemma_pack_even,
    lemmas12::lemma_pack_odd,
    lemmas12::lemma_slide,
    lemmas12::lemma_count_odd,
    lemmas12::lemma_set12,
};

// @obl props=C08,C09,C13 tier=quick fns=Fat12::get_raw
// @desc FAT12 get_raw(k), any table size: reads the 16-bit window at byte k + k/2 and returns the low 12 bits (even k) or the high 12 bits (odd k) = the arithmetic entry spec ent12; table unchanged; errors are stream errors
//@extract file=src/table.rs scope="impl FatTrait for Fat12" fn=get_raw as=fat12_get_raw self_prefix=fat12_
//@generics <S: Stream<E>, E>
//@spec
    requires
        cluster <= 0x1000_0001,
    ensures
        final(fat).bytes() == old(fat).bytes(),
        r is Err ==> is_stream_err(r->Err_0),
        r is Ok ==> fits12(old(fat).bytes(), cluster as int) && r->Ok_0 == ent12(old(fat).bytes(), cluster as int),
//@endextract

// @obl props=C03,C08,C09,C13 tier=quick fns=Fat12::get
// @desc FAT12 get(k): Ok(v) => v = class12(entry k): 0 free, FF7 bad, FF8..FFF (every legal marker) end of chain, else next cluster; table unchanged
//@extract file=src/table.rs scope="impl FatTrait for Fat12" fn=get as=fat12_get self_prefix=fat12_
//@generics <S: Stream<E>, E>
//@spec
    requires
        cluster <= 0x1000_0001,
    ensures
        final(fat).bytes() == old(fat).bytes(),
        r is Err ==> is_stream_err(r->Err_0),
        r is Ok ==> fits12(old(fat).bytes(), cluster as int) && r->Ok_0 == class12(ent12(old(fat).bytes(), cluster as int)),
//@endextract

// @obl props=C03,C08,C09,C10 tier=quick fns=Fat12::set_raw
// @desc FAT12 set_raw(k, v <= 0xFFF), any table size: Ok => entry k = v and EVERY other entry keeps its 12 bits, in particular the neighbour that shares a byte with entry k; nothing outside the two-byte window changes (also on error)
//@extract file=src/table.rs scope="impl FatTrait for Fat12" fn=set_raw as=fat12_set_raw self_prefix=fat12_
//@generics <S: Stream<E>, E>
//@spec
    requires
        cluster <= 0x1000_0001,
        raw_val <= 0xFFF,
    ensures
        same_outside(final(fat).bytes(), old(fat).bytes(), off12(cluster as int), 2),
        r is Err ==> is_stream_err(r->Err_0),
        r is Ok ==> set12_bytes(old(fat).bytes(), final(fat).bytes(), cluster as int, raw_val as int),
//@endextract

// @obl props=C03,C08,C09,C10 tier=quick fns=Fat12::set
// @desc FAT12 set(k, value): Ok => entry k encodes value and every other entry of the table is unchanged; errors are stream errors
//@extract file=src/table.rs scope="impl FatTrait for Fat12" fn=set as=fat12_set self_prefix=fat12_
//@generics <S: Stream<E>, E>
//@spec
    requires
        cluster <= 0x1000_0001,
        value is Data ==> value->Data_0 <= 0xFFF,
    ensures
        final(fat).bytes().len() == old(fat).bytes().len(),
        r is Err ==> is_stream_err(r->Err_0),
        r is Ok ==> fits12(old(fat).bytes(), cluster as int) && ent12(final(fat).bytes(), cluster as int) == enc12(value)
            && others_unchanged(FatType::Fat12, final(fat).bytes(), old(fat).bytes(), cluster as int, cluster as int),
//@endextract

// @obl props=C05,C09,C10,C13,C20 tier=quick fns=Fat12::find_free
// @desc FAT12 find_free over [start,end), start < end, any table size: the streaming decode (16-bit window slid by one or two bytes per entry) agrees with the arithmetic entry spec; Ok(c) => FIRST free entry in the range; Err(NotEnoughSpace) => NO free entry in the range; other errors are stream errors; table unchanged; terminates
//@extract file=src/table.rs scope="impl FatTrait for Fat12" fn=find_free as=fat12_find_free self_prefix=fat12_
//@generics <S: Stream<E>, E>
//@spec
    requires
        start_cluster < end_cluster <= 0x1000_0001,
    ensures
        final(fat).bytes() == old(fat).bytes(),
        match r {
            Ok(c) => start_cluster <= c < end_cluster && fits12(old(fat).bytes(), c as int) && ent12(old(fat).bytes(), c as int) == 0
                && forall|k: int| start_cluster <= k < c ==> ent12(old(fat).bytes(), k) != 0,
            Err(Error::NotEnoughSpace) => forall|k: int| start_cluster <= k < end_cluster ==> ent12(old(fat).bytes(), k) != 0,
            Err(e) => is_stream_err(e),
        },
//@loop 0
        invariant
            start_cluster <= cluster < end_cluster <= 0x1000_0001,
            fat.bytes() == old(fat).bytes(),
            fits12(fat.bytes(), cluster as int),
            fat.pos() == off12(cluster as int) + 2,
            packed_val as int == le16(fat.bytes(), off12(cluster as int)),
            forall|k: int| start_cluster <= k < cluster ==> ent12(old(fat).bytes(), k) != 0,
        decreases end_cluster - cluster,
//@endextract

// @obl props=C05,C09,C13 tier=quick fns=Fat12::count_free
// @desc FAT12 count_free(end), any table size: the 3-bytes-per-2-entries streaming decode is zero-equivalent to the arithmetic entry spec, so Ok(n) => n = number of entries in [2, end) whose 12 bits are zero; table unchanged; terminates
//@extract file=src/table.rs scope="impl FatTrait for Fat12" fn=count_free as=fat12_count_free self_prefix=fat12_
//@generics <S: Stream<E>, E>
//@spec
    requires
        2 <= end_cluster <= 0x1000_0001,
    ensures
        final(fat).bytes() == old(fat).bytes(),
        r is Err ==> is_stream_err(r->Err_0),
        r is Ok ==> r->Ok_0 == free_count12(old(fat).bytes(), 2, end_cluster as int),
//@loop 0
        invariant
            2 <= cluster <= end_cluster <= 0x1000_0001,
            fat.bytes() == old(fat).bytes(),
            cluster % 2 == 0 ==> fat.pos() == off12(cluster as int),
            cluster % 2 == 1 ==> fat.pos() == off12(cluster as int) + 1 && fits12(fat.bytes(), cluster as int - 1)
                && prev_packed_val as int == le16(fat.bytes(), off12(cluster as int - 1)),
            count == free_count12(old(fat).bytes(), 2, cluster as int),
            count <= cluster - 2,
        decreases end_cluster - cluster,
//@endextract

} // mod code

} // verus!

fn main() {}
