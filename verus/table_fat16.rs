// Verus unit: FAT16 entry functions of src/table.rs, for tables of ANY size.
use vstd::prelude::*;

verus! {

//@include inc_stream.rs
//@include inc_fatspec.rs

// @obl props=C08,C09,C13 tier=quick fns=Fat16::get_raw
// @desc FAT16 get_raw(k), any table size: no overflow in k*2; Ok(v) => entry inside the table, v its 16 bits; Err => stream error; table unchanged
//@extract file=src/table.rs scope="impl FatTrait for Fat16" fn=get_raw as=fat16_get_raw self_prefix=fat16_
//@generics <S: Stream<E>, E>
//@spec
    requires
        cluster <= 0x1000_0001,
    ensures
        final(fat).bytes() == old(fat).bytes(),
        r is Err ==> is_stream_err(r->Err_0),
        r is Ok ==> fits16(old(fat).bytes(), cluster as int) && r->Ok_0 == ent16(old(fat).bytes(), cluster as int),
//@endextract

// @obl props=C03,C08,C09,C13 tier=quick fns=Fat16::get
// @desc FAT16 get(k): Ok(v) => v = class16(entry k): 0 free, FFF7 bad, FFF8..FFFF (every legal marker) end of chain, else next cluster; table unchanged
//@extract file=src/table.rs scope="impl FatTrait for Fat16" fn=get as=fat16_get self_prefix=fat16_
//@generics <S: Stream<E>, E>
//@spec
    requires
        cluster <= 0x1000_0001,
    ensures
        final(fat).bytes() == old(fat).bytes(),
        r is Err ==> is_stream_err(r->Err_0),
        r is Ok ==> fits16(old(fat).bytes(), cluster as int) && r->Ok_0 == class16(ent16(old(fat).bytes(), cluster as int)),
//@endextract

// @obl props=C03,C09,C10 tier=quick fns=Fat16::set_raw
// @desc FAT16 set_raw(k, v): Ok => entry k holds the low 16 bits of v; bytes outside entry k unchanged also on error
//@extract file=src/table.rs scope="impl FatTrait for Fat16" fn=set_raw as=fat16_set_raw self_prefix=fat16_
//@generics <S: Stream<E>, E>
//@spec
    requires
        cluster <= 0x1000_0001,
        raw_value <= 0xFFFF,
    ensures
        same_outside(final(fat).bytes(), old(fat).bytes(), 2 * cluster as int, 2),
        r is Err ==> is_stream_err(r->Err_0),
        r is Ok ==> fits16(old(fat).bytes(), cluster as int) && ent16(final(fat).bytes(), cluster as int) == raw_value,
//@endextract

// @obl props=C03,C08,C09,C10 tier=quick fns=Fat16::set
// @desc FAT16 set(k, value), any table size: Ok => entry k encodes value; every byte outside entry k unchanged (every other entry keeps its value); errors are stream errors
//@extract file=src/table.rs scope="impl FatTrait for Fat16" fn=set as=fat16_set self_prefix=fat16_
//@generics <S: Stream<E>, E>
//@spec
    requires
        cluster <= 0x1000_0001,
        value is Data ==> value->Data_0 <= 0xFFFF,
    ensures
        same_outside(final(fat).bytes(), old(fat).bytes(), 2 * cluster as int, 2),
        r is Err ==> is_stream_err(r->Err_0),
        r is Ok ==> fits16(old(fat).bytes(), cluster as int) && ent16(final(fat).bytes(), cluster as int) == enc16(value),
        others_unchanged(FatType::Fat16, final(fat).bytes(), old(fat).bytes(), cluster as int, cluster as int),
//@endextract

// @obl props=C05,C09,C10,C13,C20 tier=quick fns=Fat16::find_free
// @desc FAT16 find_free over [start,end), any table size: Ok(c) => FIRST free entry in the range; Err(NotEnoughSpace) => NO free entry in the range; other errors are stream errors; table unchanged; terminates
//@extract file=src/table.rs scope="impl FatTrait for Fat16" fn=find_free as=fat16_find_free self_prefix=fat16_
//@generics <S: Stream<E>, E>
//@spec
    requires
        start_cluster <= end_cluster <= 0x1000_0001,
    ensures
        final(fat).bytes() == old(fat).bytes(),
        match r {
            Ok(c) => start_cluster <= c < end_cluster && fits16(old(fat).bytes(), c as int) && ent16(old(fat).bytes(), c as int) == 0
                && forall|k: int| start_cluster <= k < c ==> ent16(old(fat).bytes(), k) != 0,
            Err(Error::NotEnoughSpace) => forall|k: int| start_cluster <= k < end_cluster ==> ent16(old(fat).bytes(), k) != 0,
            Err(e) => is_stream_err(e),
        },
//@loop 0
        invariant
            start_cluster <= cluster <= end_cluster <= 0x1000_0001,
            fat.bytes() == old(fat).bytes(),
            fat.pos() == 2 * cluster as int,
            forall|k: int| start_cluster <= k < cluster ==> ent16(old(fat).bytes(), k) != 0,
        decreases end_cluster - cluster,
//@endextract

// @obl props=C05,C09,C13 tier=quick fns=Fat16::count_free
// @desc FAT16 count_free(end), any table size: Ok(n) => n = number of zero entries in [2, end); table unchanged; terminates
//@extract file=src/table.rs scope="impl FatTrait for Fat16" fn=count_free as=fat16_count_free self_prefix=fat16_
//@generics <S: Stream<E>, E>
//@spec
    requires
        2 <= end_cluster <= 0x1000_0001,
    ensures
        final(fat).bytes() == old(fat).bytes(),
        r is Err ==> is_stream_err(r->Err_0),
        r is Ok ==> r->Ok_0 == free_count16(old(fat).bytes(), 2, end_cluster as int),
//@loop 0
        invariant
            2 <= cluster <= end_cluster <= 0x1000_0001,
            fat.bytes() == old(fat).bytes(),
            fat.pos() == 2 * cluster as int,
            count == free_count16(old(fat).bytes(), 2, cluster as int),
            count <= cluster - 2,
        decreases end_cluster - cluster,
//@endextract

} // verus!

fn main() {}
