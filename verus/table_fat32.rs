// Verus unit: FAT32 entry functions of src/table.rs, for tables of ANY size (loops proved by invariants).
use vstd::prelude::*;

verus! {

//@include inc_stream.rs
//@include inc_fatspec.rs

mod lemmas32 {
    use vstd::prelude::*;
    pub broadcast proof fn lemma_or_reserved(val: u32, old: u32)
        requires val <= 0x0FFF_FFFFu32,
        ensures
            #![trigger (val | (old & 0xF000_0000u32))]
            (val | (old & 0xF000_0000u32)) & 0x0FFF_FFFFu32 == val,
            (val | (old & 0xF000_0000u32)) & 0xF000_0000u32 == old & 0xF000_0000u32,
    {
        assert((val | (old & 0xF000_0000u32)) & 0x0FFF_FFFFu32 == val) by (bit_vector)
            requires val <= 0x0FFF_FFFFu32;
        assert((val | (old & 0xF000_0000u32)) & 0xF000_0000u32 == old & 0xF000_0000u32) by (bit_vector)
            requires val <= 0x0FFF_FFFFu32;
    }
    pub broadcast proof fn lemma_mask28(x: u32)
        ensures
            #[trigger] (x & 0x0FFF_FFFFu32) <= 0x0FFF_FFFFu32,
    {
        assert((x & 0x0FFF_FFFFu32) <= 0x0FFF_FFFFu32) by (bit_vector);
    }
}
broadcast use {lemmas32::lemma_or_reserved, lemmas32::lemma_mask28};

// @obl props=C08,C09,C13,C20 tier=quick fns=Fat32::get_raw
// @desc FAT32 get_raw(k), any table size, k <= 2^28+1: no overflow in k*4; Ok(v) => the entry lies inside the table and v is its raw 32 bits; Err => a stream error (never invented); table bytes unchanged
//@extract file=src/table.rs scope="impl FatTrait for Fat32" fn=get_raw as=fat32_get_raw self_prefix=fat32_
//@generics <S: Stream<E>, E>
//@spec
    requires
        cluster <= 0x1000_0001,
    ensures
        final(fat).bytes() == old(fat).bytes(),
        r is Err ==> is_stream_err(r->Err_0),
        r is Ok ==> fits32(old(fat).bytes(), cluster as int) && r->Ok_0 == raw32(old(fat).bytes(), cluster as int),
//@endextract

// @obl props=C03,C08,C09,C13 tier=quick fns=Fat32::get
// @desc FAT32 get(k): Ok(v) => v = class32(k, low 28 bits of entry k) - every legal end-of-chain marker, the bad marker, reserved top bits ignored, special cluster numbers reported Bad; table unchanged; errors are stream errors
//@extract file=src/table.rs scope="impl FatTrait for Fat32" fn=get as=fat32_get self_prefix=fat32_
//@generics <S: Stream<E>, E>
//@spec
    requires
        cluster <= 0x1000_0001,
    ensures
        final(fat).bytes() == old(fat).bytes(),
        r is Err ==> is_stream_err(r->Err_0),
        r is Ok ==> fits32(old(fat).bytes(), cluster as int) && r->Ok_0 == class32(cluster, ent32(old(fat).bytes(), cluster as int)),
//@endextract

// @obl props=C03,C09,C10 tier=quick fns=Fat32::set_raw
// @desc FAT32 set_raw(k, v): Ok => entry k holds exactly v and every byte outside the entry is unchanged; Err => stream error and still nothing outside entry k changed
//@extract file=src/table.rs scope="impl FatTrait for Fat32" fn=set_raw as=fat32_set_raw self_prefix=fat32_
//@generics <S: Stream<E>, E>
//@spec
    requires
        cluster <= 0x1000_0001,
    ensures
        same_outside(final(fat).bytes(), old(fat).bytes(), 4 * cluster as int, 4),
        r is Err ==> is_stream_err(r->Err_0),
        r is Ok ==> fits32(old(fat).bytes(), cluster as int) && raw32(final(fat).bytes(), cluster as int) == raw_value,
//@endextract

// @obl props=C03,C08,C09,C10 tier=quick fns=Fat32::set
// @desc FAT32 set(k, value) for any table size: Ok => the low 28 bits of entry k encode value, the TOP FOUR BITS are exactly the old ones, every byte outside entry k is unchanged (so every other entry keeps its value); the panic for freeing a special cluster number is unreachable under the callers' precondition; errors are stream errors
//@extract file=src/table.rs scope="impl FatTrait for Fat32" fn=set as=fat32_set self_prefix=fat32_
//@generics <S: Stream<E>, E>
//@spec
    requires
        cluster <= 0x1000_0001,
        value is Data ==> value->Data_0 <= 0x0FFF_FFFF,
        !(value is Free && special32(cluster)),
    ensures
        same_outside(final(fat).bytes(), old(fat).bytes(), 4 * cluster as int, 4),
        r is Err ==> is_stream_err(r->Err_0),
        r is Ok ==> fits32(old(fat).bytes(), cluster as int)
            && ent32(final(fat).bytes(), cluster as int) == enc32(value)
            && raw32(final(fat).bytes(), cluster as int) & 0xF000_0000u32 == raw32(old(fat).bytes(), cluster as int) & 0xF000_0000u32,
        others_unchanged(FatType::Fat32, final(fat).bytes(), old(fat).bytes(), cluster as int, cluster as int),
//@endextract

// @obl props=C05,C09,C10,C13,C20 tier=quick fns=Fat32::find_free
// @desc FAT32 find_free over [start,end), any table size, end <= 2^28+1: Ok(c) => c is the FIRST entry in the range whose low 28 bits are zero; Err(NotEnoughSpace) => NO entry in the range is free; any other error is a stream error; table unchanged; terminates
//@extract file=src/table.rs scope="impl FatTrait for Fat32" fn=find_free as=fat32_find_free self_prefix=fat32_
//@generics <S: Stream<E>, E>
//@spec
    requires
        start_cluster <= end_cluster <= 0x1000_0001,
    ensures
        final(fat).bytes() == old(fat).bytes(),
        match r {
            Ok(c) => start_cluster <= c < end_cluster && fits32(old(fat).bytes(), c as int) && ent32(old(fat).bytes(), c as int) == 0
                && forall|k: int| start_cluster <= k < c ==> ent32(old(fat).bytes(), k) != 0,
            Err(Error::NotEnoughSpace) => forall|k: int| start_cluster <= k < end_cluster ==> ent32(old(fat).bytes(), k) != 0,
            Err(e) => is_stream_err(e),
        },
//@loop 0
        invariant
            start_cluster <= cluster <= end_cluster <= 0x1000_0001,
            fat.bytes() == old(fat).bytes(),
            fat.pos() == 4 * cluster as int,
            forall|k: int| start_cluster <= k < cluster ==> ent32(old(fat).bytes(), k) != 0,
        decreases end_cluster - cluster,
//@endextract

// @obl props=C05,C09,C13 tier=quick fns=Fat32::count_free
// @desc FAT32 count_free(end), any table size: Ok(n) => n = number of entries in [2, end) whose low 28 bits are zero (reserved bits ignored); table unchanged; errors are stream errors; terminates
//@extract file=src/table.rs scope="impl FatTrait for Fat32" fn=count_free as=fat32_count_free self_prefix=fat32_
//@generics <S: Stream<E>, E>
//@spec
    requires
        2 <= end_cluster <= 0x1000_0001,
    ensures
        final(fat).bytes() == old(fat).bytes(),
        r is Err ==> is_stream_err(r->Err_0),
        r is Ok ==> r->Ok_0 == free_count32(old(fat).bytes(), 2, end_cluster as int),
//@loop 0
        invariant
            2 <= cluster <= end_cluster <= 0x1000_0001,
            fat.bytes() == old(fat).bytes(),
            fat.pos() == 4 * cluster as int,
            count == free_count32(old(fat).bytes(), 2, cluster as int),
            count <= cluster - 2,
        decreases end_cluster - cluster,
//@endextract

} // verus!

fn main() {}
