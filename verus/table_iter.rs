// Verus unit: ClusterIterator::{next, free, truncate} of src/table.rs over chains of ANY length, checked against
// the contracts of get_next_cluster / write_fat (unit table_alloc).
use vstd::prelude::*;

verus! {

//@include inc_stream.rs

pub mod spec {
use vstd::prelude::*;
use super::*;
//@include inc_fatspec.rs

pub open spec fn total_ok(ft: FatType, total: u32) -> bool {
    match ft {
        FatType::Fat12 => total < 4085,
        FatType::Fat16 => total < 65525,
        FatType::Fat32 => total <= 0x0FFF_FFF4,
    }
}

pub open spec fn value_ok(ft: FatType, cluster: u32, v: FatValue) -> bool {
    (v is Data ==> v->Data_0 <= max_data(ft)) && !(ft == FatType::Fat32 && v is Free && special32(cluster))
}

pub open spec fn no_free_in(ft: FatType, s: Seq<u8>, lo: int, hi: int) -> bool {
    forall|k: int| lo <= k < hi ==> ent(ft, s, k) != 0
}

/// one past the largest cluster number a volume of this width can have (total_ok + 2)
pub open spec fn max_cluster(ft: FatType) -> int {
    match ft {
        FatType::Fat12 => 4087,
        FatType::Fat16 => 65527,
        FatType::Fat32 => 0x0FFF_FFF6,
    }
}

pub open spec fn next_of(ft: FatType, s: Seq<u8>, c: u32) -> Option<u32> {
    match class(ft, c, ent(ft, s, c as int)) {
        FatValue::Data(n) => Some(n),
        _ => None,
    }
}

/// ch is a well-formed cluster chain of table s: in range, linked entry by entry (in whatever order the
/// clusters lie on disk), ending in a non-pointer entry, without repetition (no cycle)
pub open spec fn wf_chain(ft: FatType, s: Seq<u8>, ch: Seq<u32>) -> bool {
    1 <= ch.len() < 0x1000_0000
    && (forall|i: int| 0 <= i < ch.len() ==> 2 <= #[trigger] ch[i] < max_cluster(ft) && fits(ft, s, ch[i] as int))
    && (forall|i: int| 0 <= i < ch.len() - 1 ==> next_of(ft, s, #[trigger] ch[i]) == Some(ch[i + 1]))
    && next_of(ft, s, ch[ch.len() - 1]) is None
    && (forall|i: int, j: int| 0 <= i < j < ch.len() ==> #[trigger] ch[i] != #[trigger] ch[j])
}

pub open spec fn has_chain(ft: FatType, s: Seq<u8>, c: u32) -> bool {
    exists|ch: Seq<u32>| #[trigger] wf_chain(ft, s, ch) && ch[0] == c
}

pub open spec fn the_chain(ft: FatType, s: Seq<u8>, c: u32) -> Seq<u32> {
    choose|ch: Seq<u32>| #[trigger] wf_chain(ft, s, ch) && ch[0] == c
}

pub open spec fn in_chain(ch: Seq<u32>, k: int) -> bool {
    exists|i: int| 0 <= i < ch.len() && #[trigger] ch[i] == k
}
} // mod spec

pub mod lemmas_iter {
    use vstd::prelude::*;
    use super::*;
    use super::spec::*;

    /// cutting a chain after its first cluster: the rest is still a well-formed chain of the updated table
    pub broadcast proof fn lemma_tail(ft: FatType, s0: Seq<u8>, s1: Seq<u8>, ch: Seq<u32>)
        requires
            #[trigger] wf_chain(ft, s0, ch),
            ch.len() > 1,
            #[trigger] others_unchanged(ft, s1, s0, ch[0] as int, ch[0] as int),
        ensures
            wf_chain(ft, s1, ch.subrange(1, ch.len() as int)),
            has_chain(ft, s1, ch[1]),
    {
        let t = ch.subrange(1, ch.len() as int);
        assert forall|i: int| 0 <= i < t.len() implies 2 <= #[trigger] t[i] < max_cluster(ft) && fits(ft, s1, t[i] as int) by {
            assert(t[i] == ch[i + 1]);
        }
        assert forall|i: int| 0 <= i < t.len() implies ent(ft, s1, #[trigger] t[i] as int) == ent(ft, s0, t[i] as int) by {
            assert(t[i] == ch[i + 1]);
            assert(ch[0] != ch[i + 1]);
        }
        assert forall|i: int| 0 <= i < t.len() - 1 implies next_of(ft, s1, #[trigger] t[i]) == Some(t[i + 1]) by {
            assert(t[i] == ch[i + 1] && t[i + 1] == ch[i + 2]);
            assert(next_of(ft, s0, ch[i + 1]) == Some(ch[i + 2]));
        }
        assert(t[t.len() - 1] == ch[ch.len() - 1]);
        assert forall|i: int, j: int| 0 <= i < j < t.len() implies #[trigger] t[i] != #[trigger] t[j] by {
            assert(t[i] == ch[i + 1] && t[j] == ch[j + 1]);
        }
        assert(wf_chain(ft, s1, t));
        assert(t[0] == ch[1]);
    }
}

pub mod code {
use vstd::prelude::*;
use super::*;
use super::spec::*;
use super::lemmas_iter;

broadcast use lemmas_iter::lemma_tail;

//@stub unit=table_alloc fn=get_next_cluster
//@stub unit=table_alloc fn=write_fat

// Transcription of `struct ClusterIterator<B, E, S = B>` with R5 (B = S: BorrowMut is the identity for both
// instantiations the crate uses); the extractor checks the field names against the real struct.
//@struct_check file=src/table.rs name=ClusterIterator fields=fat,fat_type,cluster,err,phantom_s,phantom_e
pub struct ClusterIterator<S, E> {
    pub fat: S,
    pub fat_type: FatType,
    pub cluster: Option<u32>,
    pub err: bool,
    pub phantom_e: core::marker::PhantomData<E>,
}

impl<S: Stream<E>, E> ClusterIterator<S, E> {

// @obl props=C02,C03,C08,C09,C13 tier=quick fns=ClusterIterator::next
// @desc ClusterIterator::next: after an error, or at the end, returns None and changes nothing; otherwise moves to the successor entry of the current cluster (the table's own link, whatever its order on disk) and yields it, or yields the stream error, LATCHES err and keeps the position; table unchanged
//@extract file=src/table.rs scope="impl<B, E, S> Iterator for ClusterIterator<B, E, S>" fn=next as=next vis="pub" ret="Option<Result<u32, Error<E>>>"
//@generics
//@spec
    requires
        old(self).cluster is Some ==> old(self).cluster->Some_0 <= 0x1000_0001,
    ensures
        final(self).fat.bytes() == old(self).fat.bytes(),
        final(self).fat_type == old(self).fat_type,
        old(self).err || old(self).cluster is None ==> r is None && final(self).err == old(self).err
            && final(self).cluster == old(self).cluster,
        !old(self).err && old(self).cluster is Some ==> (match r {
            Some(Err(e)) => is_stream_err(e) && final(self).err && final(self).cluster == old(self).cluster,
            Some(Ok(n)) => !final(self).err && final(self).cluster == Some(n)
                && next_of(old(self).fat_type, old(self).fat.bytes(), old(self).cluster->Some_0) == Some(n),
            None => !final(self).err && final(self).cluster is None
                && next_of(old(self).fat_type, old(self).fat.bytes(), old(self).cluster->Some_0) is None,
        }),
//@endextract

// @obl props=C03,C05,C09 tier=quick fns=ClusterIterator::free
// @desc ClusterIterator::free over a well-formed chain of ANY length: terminates on EVERY path (decreases clause - including the path where reading the table fails); Ok(n) => n = the chain length = number of entries actually freed, exactly the chain's entries are now free and EVERY other entry of the table is unchanged; Err => a stream error
//@extract file=src/table.rs scope="impl<B, E, S> ClusterIterator<B, E, S>" fn=free as=free vis="pub"
//@generics
//@spec
    requires
        !old(self).err,
        old(self).cluster is Some ==> has_chain(old(self).fat_type, old(self).fat.bytes(), old(self).cluster->Some_0),
    ensures
        final(self).fat_type == old(self).fat_type,
        r is Err ==> is_stream_err(r->Err_0),
        r is Ok && old(self).cluster is None ==> r->Ok_0 == 0 && final(self).fat.bytes() == old(self).fat.bytes(),
        r is Ok && old(self).cluster is Some ==> ({
            let ch = the_chain(old(self).fat_type, old(self).fat.bytes(), old(self).cluster->Some_0);
            r->Ok_0 == ch.len() && final(self).cluster is None
                && final(self).fat.bytes().len() == old(self).fat.bytes().len()
                && (forall|i: int| 0 <= i < ch.len() ==> ent(old(self).fat_type, final(self).fat.bytes(), #[trigger] ch[i] as int) == 0)
                && (forall|k: int| !in_chain(ch, k) && fits(old(self).fat_type, old(self).fat.bytes(), k)
                    ==> #[trigger] ent(old(self).fat_type, final(self).fat.bytes(), k) == ent(old(self).fat_type, old(self).fat.bytes(), k))
        }),
//@entry
    hide(ent);
    hide(class);
    let ghost ft = self.fat_type;
    let ghost s0 = self.fat.bytes();
    let ghost ch: Seq<u32> = if self.cluster is Some { the_chain(ft, s0, self.cluster->Some_0) } else { Seq::empty() };
    let ghost mut i: int = 0;
//@loop 0
        invariant
            ft == old(self).fat_type,
            s0 == old(self).fat.bytes(),
            self.fat_type == ft,
            !self.err,
            old(self).cluster is Some ==> wf_chain(ft, s0, ch) && ch == the_chain(ft, s0, old(self).cluster->Some_0),
            old(self).cluster is None ==> ch.len() == 0,
            0 <= i <= ch.len(),
            num_free == i,
            self.cluster == (if i < ch.len() { Some(ch[i]) } else { None::<u32> }),
            self.fat.bytes().len() == s0.len(),
            forall|j: int| i <= j < ch.len() ==> ent(ft, self.fat.bytes(), #[trigger] ch[j] as int) == ent(ft, s0, ch[j] as int),
            forall|j: int| 0 <= j < i ==> ent(ft, self.fat.bytes(), #[trigger] ch[j] as int) == 0,
            forall|k: int| !in_chain(ch, k) && fits(ft, s0, k) ==> #[trigger] ent(ft, self.fat.bytes(), k) == ent(ft, s0, k),
            old(self).cluster is None ==> self.fat.bytes() == s0,
        ensures
            self.cluster is None,
        decreases ch.len() - i,
//@loop_body_end 0
        proof {
            i = i + 1;
        }
//@endextract

// @obl props=C03,C05,C09 tier=quick fns=ClusterIterator::truncate
// @desc ClusterIterator::truncate over a well-formed chain of ANY length: terminates on every path; the current cluster's entry is rewritten and the rest of the chain (still a well-formed chain of the updated table: lemma_tail) is handed to free() whose precondition is thereby met; every error returned is a stream error (nothing is swallowed). [The exact freed-count relation is covered by the bounded Kani twin fat16_chain_truncate_twin.]
//@extract file=src/table.rs scope="impl<B, E, S> ClusterIterator<B, E, S>" fn=truncate as=truncate vis="pub"
//@generics
//@spec
    requires
        !old(self).err,
        old(self).cluster is Some ==> has_chain(old(self).fat_type, old(self).fat.bytes(), old(self).cluster->Some_0),
    ensures
        final(self).fat_type == old(self).fat_type,
        r is Err ==> is_stream_err(r->Err_0),
        r is Ok && old(self).cluster is None ==> r->Ok_0 == 0 && final(self).fat.bytes() == old(self).fat.bytes(),
        r is Ok ==> final(self).fat.bytes().len() == old(self).fat.bytes().len(),
//@endextract

} // impl

} // mod code

} // verus!

fn main() {}
